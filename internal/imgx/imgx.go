// Package imgx: pose transforms of bilevel images held as BitMatrix.
package imgx

import "github.com/makiuchi-d/gozxing"

// Pad adds white pixels around the image.
func Pad(bm *gozxing.BitMatrix, l, t, r, b int) *gozxing.BitMatrix {
	w, h := bm.GetWidth(), bm.GetHeight()
	out, _ := gozxing.NewBitMatrix(w+l+r, h+t+b)
	for y := 0; y < h; y++ {
		for x := 0; x < w; x++ {
			if bm.Get(x, y) {
				out.Set(x+l, y+t)
			}
		}
	}
	return out
}

// Scale upscales by an integer factor.
func Scale(bm *gozxing.BitMatrix, k int) *gozxing.BitMatrix {
	if k == 1 {
		return Pad(bm, 0, 0, 0, 0)
	}
	w, h := bm.GetWidth(), bm.GetHeight()
	out, _ := gozxing.NewBitMatrix(w*k, h*k)
	for y := 0; y < h; y++ {
		for x := 0; x < w; x++ {
			if bm.Get(x, y) {
				out.SetRegion(x*k, y*k, k, k)
			}
		}
	}
	return out
}

// Rotate rotates clockwise by quarter turns (0..3).
func Rotate(bm *gozxing.BitMatrix, quarter int) *gozxing.BitMatrix {
	quarter = ((quarter % 4) + 4) % 4
	cur := Pad(bm, 0, 0, 0, 0)
	for i := 0; i < quarter; i++ {
		w, h := cur.GetWidth(), cur.GetHeight()
		out, _ := gozxing.NewBitMatrix(h, w)
		for y := 0; y < h; y++ {
			for x := 0; x < w; x++ {
				if cur.Get(x, y) {
					out.Set(h-1-y, x)
				}
			}
		}
		cur = out
	}
	return cur
}

// Transpose mirrors the image along the main diagonal.
func Transpose(bm *gozxing.BitMatrix) *gozxing.BitMatrix {
	w, h := bm.GetWidth(), bm.GetHeight()
	out, _ := gozxing.NewBitMatrix(h, w)
	for y := 0; y < h; y++ {
		for x := 0; x < w; x++ {
			if bm.Get(x, y) {
				out.Set(y, x)
			}
		}
	}
	return out
}

// FlipH mirrors left-right.
func FlipH(bm *gozxing.BitMatrix) *gozxing.BitMatrix {
	w, h := bm.GetWidth(), bm.GetHeight()
	out, _ := gozxing.NewBitMatrix(w, h)
	for y := 0; y < h; y++ {
		for x := 0; x < w; x++ {
			if bm.Get(x, y) {
				out.Set(w-1-x, y)
			}
		}
	}
	return out
}
