// Package qrref is an independent construction of QR Code model 2 symbols from
// ISO/IEC 18004: capacity formulae, block tables, bit stream, Reed-Solomon,
// interleaving, function patterns, BCH words, placement and masks.
// It shares no table with the library under test.
package qrref

import (
	"fmt"

	"verif/internal/gfref"
)

// Levels are indexed L=0, M=1, Q=2, H=3.
const (
	L = 0
	M = 1
	Q = 2
	H = 3
)

var LevelNames = [4]string{"L", "M", "Q", "H"}

// ISO 18004 table 9: error correction codewords per block, versions 1..40.
var ecPerBlock = [4][40]int{
	{7, 10, 15, 20, 26, 18, 20, 24, 30, 18, 20, 24, 26, 30, 22, 24, 28, 30, 28, 28, 28, 28, 30, 30, 26, 28, 30, 30, 30, 30, 30, 30, 30, 30, 30, 30, 30, 30, 30, 30},
	{10, 16, 26, 18, 24, 16, 18, 22, 22, 26, 30, 22, 22, 24, 24, 28, 28, 26, 26, 26, 26, 28, 28, 28, 28, 28, 28, 28, 28, 28, 28, 28, 28, 28, 28, 28, 28, 28, 28, 28},
	{13, 22, 18, 26, 18, 24, 18, 22, 20, 24, 28, 26, 24, 20, 30, 24, 28, 28, 26, 30, 28, 30, 30, 30, 30, 28, 30, 30, 30, 30, 30, 30, 30, 30, 30, 30, 30, 30, 30, 30},
	{17, 28, 22, 16, 22, 28, 26, 26, 24, 28, 24, 28, 22, 24, 24, 30, 28, 28, 26, 28, 30, 24, 30, 30, 30, 30, 30, 30, 30, 30, 30, 30, 30, 30, 30, 30, 30, 30, 30, 30},
}

// ISO 18004 table 9: number of error correction blocks, versions 1..40.
var numBlocks = [4][40]int{
	{1, 1, 1, 1, 1, 2, 2, 2, 2, 4, 4, 4, 4, 4, 6, 6, 6, 6, 7, 8, 8, 9, 9, 10, 12, 12, 12, 13, 14, 15, 16, 17, 18, 19, 19, 20, 21, 22, 24, 25},
	{1, 1, 1, 2, 2, 4, 4, 4, 5, 5, 5, 8, 9, 9, 10, 10, 11, 13, 14, 16, 17, 17, 18, 20, 21, 23, 25, 26, 28, 29, 31, 33, 35, 37, 38, 40, 43, 45, 47, 49},
	{1, 1, 2, 2, 4, 4, 6, 6, 8, 8, 8, 10, 12, 16, 12, 17, 16, 18, 21, 20, 23, 23, 25, 27, 29, 34, 34, 35, 38, 40, 43, 45, 48, 51, 53, 56, 59, 62, 65, 68},
	{1, 1, 2, 4, 4, 4, 5, 6, 8, 8, 11, 11, 16, 16, 18, 16, 19, 21, 25, 25, 25, 34, 30, 32, 35, 37, 40, 42, 45, 48, 51, 54, 57, 60, 63, 66, 70, 74, 77, 81},
}

// Size returns the module count per side.
func Size(v int) int { return 17 + 4*v }

// RawModules returns the number of data modules (everything but function patterns).
func RawModules(v int) int {
	r := (16*v+128)*v + 64
	if v >= 2 {
		a := v/7 + 2
		r -= (25*a-10)*a - 55
		if v >= 7 {
			r -= 36
		}
	}
	return r
}

// TotalCodewords is the number of 8-bit codewords of the symbol.
func TotalCodewords(v int) int { return RawModules(v) / 8 }

// RemainderBits is the number of modules left after the last codeword.
func RemainderBits(v int) int { return RawModules(v) % 8 }

// AlignmentCenters lists the row/column coordinates of alignment pattern centres.
func AlignmentCenters(v int) []int {
	if v == 1 {
		return nil
	}
	a := v/7 + 2
	step := 26
	if v != 32 {
		step = (v*4 + a*2 + 1) / (a*2 - 2) * 2
	}
	res := make([]int, a)
	res[0] = 6
	pos := Size(v) - 7
	for i := a - 1; i >= 1; i-- {
		res[i] = pos
		pos -= step
	}
	return res
}

// BlockInfo describes the RS block structure of (version, level).
type BlockInfo struct {
	EcPerBlock int
	NumShort   int
	ShortData  int
	NumLong    int
	LongData   int // ShortData+1
}

func Blocks(v, level int) BlockInfo {
	t := TotalCodewords(v)
	b := numBlocks[level][v-1]
	e := ecPerBlock[level][v-1]
	long := t % b
	return BlockInfo{EcPerBlock: e, NumShort: b - long, ShortData: t/b - e, NumLong: long, LongData: t/b - e + 1}
}

func (b BlockInfo) NumBlocks() int { return b.NumShort + b.NumLong }

// DataCodewords is the number of data codewords of (version, level).
func DataCodewords(v, level int) int {
	b := Blocks(v, level)
	return b.NumShort*b.ShortData + b.NumLong*b.LongData
}

// Modes.
const (
	Numeric = 1
	Alnum   = 2
	Byte    = 4
	Kanji   = 8
)

var ModeNames = map[int]string{Numeric: "numeric", Alnum: "alphanumeric", Byte: "byte", Kanji: "kanji"}

// CountBits is the width of the character count indicator.
func CountBits(mode, v int) int {
	cls := 0
	if v >= 27 {
		cls = 2
	} else if v >= 10 {
		cls = 1
	}
	switch mode {
	case Numeric:
		return []int{10, 12, 14}[cls]
	case Alnum:
		return []int{9, 11, 13}[cls]
	case Byte:
		return []int{8, 16, 16}[cls]
	case Kanji:
		return []int{8, 10, 12}[cls]
	}
	panic("qrref: bad mode")
}

// PayloadBits is the number of payload bits for n characters in mode.
func PayloadBits(mode, n int) int {
	switch mode {
	case Numeric:
		return 10*(n/3) + []int{0, 4, 7}[n%3]
	case Alnum:
		return 11*(n/2) + 6*(n%2)
	case Byte:
		return 8 * n
	case Kanji:
		return 13 * n
	}
	panic("qrref: bad mode")
}

// Fits reports whether n characters in mode with headerBits extra header bits
// (ECI, FNC1) fit (version, level).
func Fits(mode, n, v, level, headerBits int) bool {
	if n >= 1<<uint(CountBits(mode, v)) {
		return false
	}
	return headerBits+4+CountBits(mode, v)+PayloadBits(mode, n) <= 8*DataCodewords(v, level)
}

// Capacity is the largest character count that fits (version, level, mode)
// with headerBits of extra header.
func Capacity(mode, v, level, headerBits int) int {
	lo, hi := 0, 8000
	for lo < hi {
		mid := (lo + hi + 1) / 2
		if Fits(mode, mid, v, level, headerBits) {
			lo = mid
		} else {
			hi = mid - 1
		}
	}
	return lo
}

// MinVersion returns the smallest version that holds n characters, or 0.
func MinVersion(mode, n, level, headerBits int) int {
	for v := 1; v <= 40; v++ {
		if Fits(mode, n, v, level, headerBits) {
			return v
		}
	}
	return 0
}

// ---------------------------------------------------------------- bit stream

type bitBuf struct{ b []bool }

func (b *bitBuf) put(val, n int) {
	for i := n - 1; i >= 0; i-- {
		b.b = append(b.b, (val>>uint(i))&1 == 1)
	}
}

const alnumChars = "0123456789ABCDEFGHIJKLMNOPQRSTUVWXYZ $%*+-./:"

// AlnumIndex returns the alphanumeric code of c or -1.
func AlnumIndex(c byte) int {
	for i := 0; i < len(alnumChars); i++ {
		if alnumChars[i] == c {
			return i
		}
	}
	return -1
}

// Segment is the single data segment of a symbol.
type Segment struct {
	Mode int
	Data []byte // digits / alphanumeric chars / raw bytes / Shift_JIS double bytes
	ECI  int    // -1: none; else ECI assignment number (< 128 supported)
	FNC1 bool   // FNC1 in first position
}

// NumChars is the character count of the segment.
func (s Segment) NumChars() int {
	if s.Mode == Kanji {
		return len(s.Data) / 2
	}
	return len(s.Data)
}

// HeaderBits returns the extra header bits before the mode indicator.
func (s Segment) HeaderBits() int {
	n := 0
	if s.ECI >= 0 {
		n += 12
	}
	if s.FNC1 {
		n += 4
	}
	return n
}

// DataCodewordsFor builds the data codewords (with terminator and padding).
func DataCodewordsFor(s Segment, v, level int) ([]byte, error) {
	var bb bitBuf
	if s.ECI >= 0 {
		if s.ECI > 127 {
			return nil, fmt.Errorf("qrref: ECI > 127 not supported")
		}
		bb.put(7, 4)
		bb.put(s.ECI, 8)
	}
	if s.FNC1 {
		bb.put(5, 4)
	}
	bb.put(s.Mode, 4)
	n := s.NumChars()
	if n >= 1<<uint(CountBits(s.Mode, v)) {
		return nil, fmt.Errorf("qrref: count does not fit")
	}
	bb.put(n, CountBits(s.Mode, v))
	switch s.Mode {
	case Numeric:
		for i := 0; i < n; i += 3 {
			switch {
			case i+3 <= n:
				bb.put(int(s.Data[i]-'0')*100+int(s.Data[i+1]-'0')*10+int(s.Data[i+2]-'0'), 10)
			case i+2 <= n:
				bb.put(int(s.Data[i]-'0')*10+int(s.Data[i+1]-'0'), 7)
			default:
				bb.put(int(s.Data[i]-'0'), 4)
			}
		}
	case Alnum:
		for i := 0; i < n; i += 2 {
			if i+2 <= n {
				bb.put(AlnumIndex(s.Data[i])*45+AlnumIndex(s.Data[i+1]), 11)
			} else {
				bb.put(AlnumIndex(s.Data[i]), 6)
			}
		}
	case Byte:
		for _, c := range s.Data {
			bb.put(int(c), 8)
		}
	case Kanji:
		for i := 0; i+1 < len(s.Data); i += 2 {
			code := int(s.Data[i])<<8 | int(s.Data[i+1])
			switch {
			case code >= 0x8140 && code <= 0x9FFC:
				code -= 0x8140
			case code >= 0xE040 && code <= 0xEBBF:
				code -= 0xC140
			default:
				return nil, fmt.Errorf("qrref: not a Kanji-mode code %#x", code)
			}
			bb.put((code>>8)*0xC0+(code&0xFF), 13)
		}
	}
	capBits := 8 * DataCodewords(v, level)
	if len(bb.b) > capBits {
		return nil, fmt.Errorf("qrref: does not fit")
	}
	for i := 0; i < 4 && len(bb.b) < capBits; i++ {
		bb.b = append(bb.b, false)
	}
	for len(bb.b)%8 != 0 {
		bb.b = append(bb.b, false)
	}
	out := make([]byte, 0, capBits/8)
	for i := 0; i < len(bb.b); i += 8 {
		var c byte
		for j := 0; j < 8; j++ {
			c <<= 1
			if bb.b[i+j] {
				c |= 1
			}
		}
		out = append(out, c)
	}
	for i := 0; len(out) < capBits/8; i++ {
		if i%2 == 0 {
			out = append(out, 0xEC)
		} else {
			out = append(out, 0x11)
		}
	}
	return out, nil
}

// ------------------------------------------------------ RS and interleaving

// BlockOf maps an index of the final (interleaved) codeword sequence to its
// block and position inside the block (data first, then ec).
type BlockPos struct {
	Block int
	Index int // index inside the block's data+ec word
	IsEC  bool
}

// Interleave splits data into blocks, computes parity and interleaves.
// It also returns, for every final codeword, its block position.
func Interleave(data []byte, v, level int) ([]byte, []BlockPos) {
	bi := Blocks(v, level)
	nb := bi.NumBlocks()
	blocks := make([][]int, nb)
	ecs := make([][]int, nb)
	off := 0
	for b := 0; b < nb; b++ {
		k := bi.ShortData
		if b >= bi.NumShort {
			k = bi.LongData
		}
		blocks[b] = make([]int, k)
		for i := 0; i < k; i++ {
			blocks[b][i] = int(data[off+i])
		}
		off += k
		ecs[b] = gfref.QR256.Parity(blocks[b], bi.EcPerBlock)
	}
	var out []byte
	var pos []BlockPos
	maxData := bi.ShortData
	if bi.NumLong > 0 {
		maxData = bi.LongData
	}
	for i := 0; i < maxData; i++ {
		for b := 0; b < nb; b++ {
			if i < len(blocks[b]) {
				out = append(out, byte(blocks[b][i]))
				pos = append(pos, BlockPos{b, i, false})
			}
		}
	}
	for i := 0; i < bi.EcPerBlock; i++ {
		for b := 0; b < nb; b++ {
			out = append(out, byte(ecs[b][i]))
			pos = append(pos, BlockPos{b, len(blocks[b]) + i, true})
		}
	}
	return out, pos
}

// ------------------------------------------------------------ BCH words

func bchRemainder(val, poly, polyBits, shift int) int {
	v := val << uint(shift)
	for i := 31; i >= polyBits-1; i-- {
		if v&(1<<uint(i)) != 0 {
			v ^= poly << uint(i-(polyBits-1))
		}
	}
	return v
}

var levelBits = [4]int{1, 0, 3, 2} // L=01, M=00, Q=11, H=10

// FormatWord returns the 15-bit masked format information.
func FormatWord(level, mask int) int {
	d := levelBits[level]<<3 | mask
	return (d<<10 | bchRemainder(d, 0x537, 11, 10)) ^ 0x5412
}

// VersionWord returns the 18-bit version information (v >= 7).
func VersionWord(v int) int {
	return v<<12 | bchRemainder(v, 0x1F25, 13, 12)
}

// ------------------------------------------------------------ mask

// MaskBit reports whether the module at row i, column j is inverted by mask m.
func MaskBit(m, i, j int) bool {
	switch m {
	case 0:
		return (i+j)%2 == 0
	case 1:
		return i%2 == 0
	case 2:
		return j%3 == 0
	case 3:
		return (i+j)%3 == 0
	case 4:
		return (i/2+j/3)%2 == 0
	case 5:
		return (i*j)%2+(i*j)%3 == 0
	case 6:
		return ((i*j)%2+(i*j)%3)%2 == 0
	case 7:
		return ((i+j)%2+(i*j)%3)%2 == 0
	}
	panic("qrref: bad mask")
}

// ------------------------------------------------------------ matrix

// Matrix is a symbol: M[y][x] (row, column), true = dark; F marks function modules.
type Matrix struct {
	N int
	M [][]bool
	F [][]bool
}

func newMatrix(n int) *Matrix {
	m := &Matrix{N: n, M: make([][]bool, n), F: make([][]bool, n)}
	for i := range m.M {
		m.M[i] = make([]bool, n)
		m.F[i] = make([]bool, n)
	}
	return m
}

func (m *Matrix) setF(x, y int, dark bool) {
	m.M[y][x] = dark
	m.F[y][x] = true
}

// FunctionPatterns draws everything but data: finders, separators, timing,
// alignment, dark module, and reserves format / version areas.
func FunctionPatterns(v int) *Matrix {
	n := Size(v)
	m := newMatrix(n)
	// timing
	for i := 0; i < n; i++ {
		m.setF(i, 6, i%2 == 0)
		m.setF(6, i, i%2 == 0)
	}
	// finders with separators
	finder := func(cx, cy int) {
		for dy := -4; dy <= 4; dy++ {
			for dx := -4; dx <= 4; dx++ {
				x, y := cx+dx, cy+dy
				if x < 0 || y < 0 || x >= n || y >= n {
					continue
				}
				d := dx
				if d < 0 {
					d = -d
				}
				e := dy
				if e < 0 {
					e = -e
				}
				if e > d {
					d = e
				}
				m.setF(x, y, d != 2 && d != 4)
			}
		}
	}
	finder(3, 3)
	finder(n-4, 3)
	finder(3, n-4)
	// alignment
	ac := AlignmentCenters(v)
	for i, cy := range ac {
		for j, cx := range ac {
			if (i == 0 && j == 0) || (i == 0 && j == len(ac)-1) || (i == len(ac)-1 && j == 0) {
				continue
			}
			for dy := -2; dy <= 2; dy++ {
				for dx := -2; dx <= 2; dx++ {
					d := dx
					if d < 0 {
						d = -d
					}
					e := dy
					if e < 0 {
						e = -e
					}
					if e > d {
						d = e
					}
					m.setF(cx+dx, cy+dy, d != 1)
				}
			}
		}
	}
	// format areas (reserved, value set later)
	for i := 0; i <= 8; i++ {
		if !m.F[8][i] {
			m.setF(i, 8, false)
		}
		if !m.F[i][8] {
			m.setF(8, i, false)
		}
	}
	for i := 0; i < 8; i++ {
		m.setF(n-1-i, 8, false)
		m.setF(8, n-1-i, false)
	}
	// dark module
	m.setF(8, n-8, true)
	// version areas
	if v >= 7 {
		for i := 0; i < 18; i++ {
			m.setF(i/3, n-11+i%3, false)
			m.setF(n-11+i%3, i/3, false)
		}
	}
	return m
}

// FormatPositions returns the (x,y) of bit i (0 = LSB) of both format copies.
func FormatPositions(n int) (c1, c2 [15][2]int) {
	for i := 0; i < 15; i++ {
		switch {
		case i <= 5:
			c1[i] = [2]int{8, i}
		case i == 6:
			c1[i] = [2]int{8, 7}
		case i == 7:
			c1[i] = [2]int{8, 8}
		case i == 8:
			c1[i] = [2]int{7, 8}
		default:
			c1[i] = [2]int{14 - i, 8}
		}
		if i < 8 {
			c2[i] = [2]int{n - 1 - i, 8}
		} else {
			c2[i] = [2]int{8, n - 15 + i}
		}
	}
	return
}

// VersionPositions returns the (x,y) of bit i of both version copies.
func VersionPositions(n int) (c1, c2 [18][2]int) {
	for i := 0; i < 18; i++ {
		c1[i] = [2]int{i / 3, n - 11 + i%3} // bottom-left block
		c2[i] = [2]int{n - 11 + i%3, i / 3} // top-right block
	}
	return
}

// DataPath lists the (x,y) of data modules in placement order.
func DataPath(fm *Matrix) [][2]int {
	n := fm.N
	var path [][2]int
	up := true
	for right := n - 1; right >= 1; right -= 2 {
		if right == 6 {
			right = 5
		}
		for k := 0; k < n; k++ {
			y := k
			if up {
				y = n - 1 - k
			}
			for dx := 0; dx < 2; dx++ {
				x := right - dx
				if !fm.F[y][x] {
					path = append(path, [2]int{x, y})
				}
			}
		}
		up = !up
	}
	return path
}

// Build constructs the full symbol from the final codeword sequence.
func Build(final []byte, v, level, mask int) *Matrix {
	m := FunctionPatterns(v)
	n := m.N
	path := DataPath(m)
	for i, p := range path {
		bit := false
		if i/8 < len(final) {
			bit = (final[i/8]>>uint(7-i%8))&1 == 1
		}
		if MaskBit(mask, p[1], p[0]) {
			bit = !bit
		}
		m.M[p[1]][p[0]] = bit
	}
	fw := FormatWord(level, mask)
	c1, c2 := FormatPositions(n)
	for i := 0; i < 15; i++ {
		b := (fw>>uint(i))&1 == 1
		m.M[c1[i][1]][c1[i][0]] = b
		m.M[c2[i][1]][c2[i][0]] = b
	}
	if v >= 7 {
		vw := VersionWord(v)
		v1, v2 := VersionPositions(n)
		for i := 0; i < 18; i++ {
			b := (vw>>uint(i))&1 == 1
			m.M[v1[i][1]][v1[i][0]] = b
			m.M[v2[i][1]][v2[i][0]] = b
		}
	}
	return m
}

// Encode builds the complete reference symbol for a segment.
func Encode(s Segment, v, level, mask int) (*Matrix, error) {
	data, err := DataCodewordsFor(s, v, level)
	if err != nil {
		return nil, err
	}
	final, _ := Interleave(data, v, level)
	return Build(final, v, level, mask), nil
}

// CodewordModules returns, for each final codeword index, its 8 module
// coordinates (x,y), most significant bit first.
func CodewordModules(v int) [][8][2]int {
	fm := FunctionPatterns(v)
	path := DataPath(fm)
	t := TotalCodewords(v)
	out := make([][8][2]int, t)
	for i := 0; i < t; i++ {
		for j := 0; j < 8; j++ {
			out[i][j] = path[i*8+j]
		}
	}
	return out
}
