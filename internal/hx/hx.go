// Package hx is the harness core shared by all checks: seed plumbing, case
// accounting (evaluations, classes, distinct non-trivial hashes, samples),
// violation / known-finding bookkeeping, replay files, rapid driver.
package hx

import (
	"encoding/binary"
	"encoding/json"
	"flag"
	"fmt"
	"hash/fnv"
	"os"
	"path/filepath"
	"runtime/debug"
	"sort"
	"strconv"
	"strings"
	"sync"
	"testing"
	"time"

	"pgregory.net/rapid"
)

// VerifDir is the root of the verification tree (replays, known findings).
func VerifDir() string {
	if d := os.Getenv("VERIF_DIR"); d != "" {
		return d
	}
	return "/verif"
}

// ---- crash journal ---------------------------------------------------------
// A fatal runtime error in the code under test (stack overflow, out of memory, concurrent map
// write) kills the process and cannot be recovered. When a shard dies the driver re-runs it with
// VERIF_JOURNAL set: every case is then written to that file before it is evaluated, so the case
// that was in flight when the process died is known and can be replayed alone.
var (
	journalOnce sync.Once
	journalFile *os.File
	journalMu   sync.Mutex
)

// JournalCase records the case about to be evaluated (no-op unless VERIF_JOURNAL is set).
func JournalCase(kind string, raw []byte) {
	journalOnce.Do(func() {
		if p := os.Getenv("VERIF_JOURNAL"); p != "" {
			journalFile, _ = os.OpenFile(p, os.O_CREATE|os.O_RDWR|os.O_TRUNC, 0o644)
		}
	})
	if journalFile == nil {
		return
	}
	b, _ := json.Marshal(map[string]any{"kind": kind, "case": json.RawMessage(raw)})
	journalMu.Lock()
	journalFile.WriteAt(b, 0)
	journalFile.Truncate(int64(len(b)))
	journalMu.Unlock()
}

// Violation is one failing case, already written to a replay file.
type Violation struct {
	Sub    string `json:"sub"`
	Kind   string `json:"kind"`
	Replay string `json:"replay"`
	Msg    string `json:"msg"`
	Hang   bool   `json:"hang,omitempty"` // suspected non-termination: the driver re-runs it alone before reporting
}

// KnownHit is a failure recognised as a listed known finding.
type KnownHit struct {
	ID    string `json:"id"`
	What  string `json:"what"`
	Count int64  `json:"count"`
	// Witness true: the committed witness case still fails.
	Witness bool `json:"witness"`
}

// Part is what one test process writes; the driver merges parts.
type Part struct {
	Property     string           `json:"property"`
	Tier         string           `json:"tier"`
	Seed         uint64           `json:"seed"`
	Shard        int              `json:"shard"`
	NShards      int              `json:"nshards"`
	Evaluations  int64            `json:"evaluations"`
	NonTrivial   int64            `json:"nontrivial_local"`
	BulkDistinct int64            `json:"bulk_distinct"`
	HashFile     string           `json:"hash_file"`
	HashCapped   bool             `json:"hash_capped"`
	Classes      map[string]int64 `json:"classes"`
	Subchecks    map[string]int64 `json:"subchecks"`
	Exhaustive   map[string]bool  `json:"exhaustive_subchecks"`
	Samples      []any            `json:"samples"`
	Violations   []Violation      `json:"violations"`
	Known        []KnownHit       `json:"known"`
	Excluded     map[string]int64 `json:"excluded_by_construction"`
	Notes        []string         `json:"notes"`
	Inconclusive []string         `json:"inconclusive"`
	Extra        map[string]any   `json:"extra"`
	WallS        float64          `json:"wall_s"`
	Done         bool             `json:"done"`
}

// CheckFn checks one JSON-encoded case of a given kind; nil = property held.
type CheckFn func(raw json.RawMessage) error

// Matcher recognises a failure as belonging to a known finding.
type Matcher func(raw json.RawMessage, err error) bool

// KnownFinding is an entry of /verif/known_findings.json.
type KnownFinding struct {
	Status   string          `json:"status"` // "known" | "fixed"
	Property string          `json:"property"`
	ID       string          `json:"id,omitempty"`
	Kind     string          `json:"kind,omitempty"`
	Witness  json.RawMessage `json:"witness,omitempty"`
	Class    string          `json:"class,omitempty"`
	Commit   string          `json:"commit,omitempty"`
	What     string          `json:"what"`
}

const maxHashes = 4_000_000
const maxSamplesPerClass = 2
const maxSamples = 60

// Ctx is the per-process harness context.
type Ctx struct {
	mu       sync.Mutex
	T        *testing.T
	P        Part
	hashes   map[uint64]struct{}
	sampleN  map[string]int
	kinds    map[string]CheckFn
	matchers map[string]Matcher
	known    []KnownFinding
	knownIdx map[string]int
	start    time.Time
	outPath  string
	// last failing case noted during the current rapid run
	lastKind string
	lastCase json.RawMessage
	lastErr  string
	stopSub  map[string]bool
}

func envInt(name string, def int) int {
	if v := os.Getenv(name); v != "" {
		if n, err := strconv.Atoi(v); err == nil {
			return n
		}
	}
	return def
}

// New creates the context from the VERIF_* environment.
func New(t *testing.T, property string) *Ctx {
	seed := uint64(1)
	if v := os.Getenv("VERIF_SEED"); v != "" {
		if n, err := strconv.ParseInt(v, 10, 64); err == nil {
			seed = uint64(n)
		}
	}
	tier := os.Getenv("VERIF_TIER")
	if tier != "thorough" {
		tier = "quick"
	}
	c := &Ctx{T: t, start: time.Now()}
	c.P = Part{Property: property, Tier: tier, Seed: seed,
		Shard: envInt("VERIF_SHARD", 0), NShards: envInt("VERIF_NSHARDS", 1),
		Classes: map[string]int64{}, Subchecks: map[string]int64{}, Exhaustive: map[string]bool{},
		Excluded: map[string]int64{}, Extra: map[string]any{}}
	if c.P.NShards < 1 {
		c.P.NShards = 1
	}
	c.hashes = map[uint64]struct{}{}
	c.sampleN = map[string]int{}
	c.kinds = map[string]CheckFn{}
	c.matchers = map[string]Matcher{}
	c.knownIdx = map[string]int{}
	c.stopSub = map[string]bool{}
	c.outPath = os.Getenv("VERIF_OUT")
	c.loadKnown()
	return c
}

func (c *Ctx) loadKnown() {
	b, err := os.ReadFile(filepath.Join(VerifDir(), "known_findings.json"))
	if err != nil {
		return
	}
	var all []KnownFinding
	if err := json.Unmarshal(b, &all); err != nil {
		c.Inconclusive("known_findings.json unreadable: " + err.Error())
		return
	}
	for _, k := range all {
		if k.Property == c.P.Property && k.Status == "known" {
			c.known = append(c.known, k)
		}
	}
}

// Thorough reports whether the thorough tier is running.
func (c *Ctx) Thorough() bool { return c.P.Tier == "thorough" }

// N picks a per-tier count.
func (c *Ctx) N(quick, thorough int) int {
	if c.Thorough() {
		return thorough
	}
	return quick
}

// Mine reports whether enumeration index i belongs to this shard.
func (c *Ctx) Mine(i int) bool { return i%c.P.NShards == c.P.Shard }

// Seed returns a deterministic sub-seed for (VERIF_SEED, shard, name, idx).
func (c *Ctx) Seed(name string, idx int) uint64 {
	h := fnv.New64a()
	h.Write([]byte(name))
	var b [24]byte
	binary.LittleEndian.PutUint64(b[0:], c.P.Seed)
	binary.LittleEndian.PutUint64(b[8:], uint64(c.P.Shard))
	binary.LittleEndian.PutUint64(b[16:], uint64(idx))
	h.Write(b[:])
	s := h.Sum64()
	if s == 0 {
		s = 1
	}
	return s
}

// Register makes a case kind replayable.
func (c *Ctx) Register(kind string, fn CheckFn) { c.kinds[kind] = fn }

// RegisterMatcher registers a known-finding class matcher.
func (c *Ctx) RegisterMatcher(name string, m Matcher) { c.matchers[name] = m }

// Hash hashes a byte key.
func Hash(parts ...[]byte) uint64 {
	h := fnv.New64a()
	for _, p := range parts {
		h.Write(p)
		h.Write([]byte{0xff})
	}
	return h.Sum64()
}

// HashS hashes strings.
func HashS(parts ...string) uint64 {
	h := fnv.New64a()
	for _, p := range parts {
		h.Write([]byte(p))
		h.Write([]byte{0xff})
	}
	return h.Sum64()
}

// Note accounts for one executed case. class may be "" or a "a;b;c" list of
// class labels; key is the distinctness hash (used only if nontrivial).
func (c *Ctx) Note(sub, class string, nontrivial bool, key uint64, sample func() any) {
	c.mu.Lock()
	defer c.mu.Unlock()
	c.P.Evaluations++
	c.P.Subchecks[sub]++
	if class != "" {
		for _, cl := range strings.Split(class, ";") {
			if cl != "" {
				c.P.Classes[sub+"/"+cl]++
			}
		}
	}
	if nontrivial {
		c.P.NonTrivial++
		if len(c.hashes) < maxHashes {
			c.hashes[key] = struct{}{}
		} else {
			c.P.HashCapped = true
		}
	}
	if sample != nil && len(c.P.Samples) < maxSamples {
		k := sub + "/" + class
		if c.sampleN[k] < maxSamplesPerClass {
			c.sampleN[k]++
			c.P.Samples = append(c.P.Samples, map[string]any{"sub": sub, "class": class, "nontrivial": nontrivial, "case": sample()})
		}
	}
}

// NoteBulk accounts for n enumerated cases at once; distinct of them are
// non-trivial and distinct by construction (disjoint enumeration indices), so
// they are added to the distinct count without hashing.
func (c *Ctx) NoteBulk(sub, class string, n, distinct int64, sample func() any) {
	c.mu.Lock()
	defer c.mu.Unlock()
	c.P.Evaluations += n
	c.P.Subchecks[sub] += n
	if class != "" {
		c.P.Classes[sub+"/"+class] += n
	}
	c.P.NonTrivial += distinct
	c.P.BulkDistinct += distinct
	if sample != nil && len(c.P.Samples) < maxSamples {
		k := sub + "/" + class
		if c.sampleN[k] < maxSamplesPerClass {
			c.sampleN[k]++
			c.P.Samples = append(c.P.Samples, map[string]any{"sub": sub, "class": class, "nontrivial": distinct > 0, "case": sample()})
		}
	}
}

// Class adds to a class counter without counting an evaluation.
func (c *Ctx) Class(sub, class string, n int64) {
	c.mu.Lock()
	c.P.Classes[sub+"/"+class] += n
	c.mu.Unlock()
}

// Exclude counts a case steered around a known finding.
func (c *Ctx) Exclude(what string) {
	c.mu.Lock()
	c.P.Excluded[what]++
	c.mu.Unlock()
}

// SetExhaustive marks a sub-check as having enumerated its finite space fully.
func (c *Ctx) SetExhaustive(sub string, v bool) {
	c.mu.Lock()
	c.P.Exhaustive[sub] = v
	c.mu.Unlock()
}

// Notef records a free-text note for the evidence.
func (c *Ctx) Notef(f string, a ...any) {
	c.mu.Lock()
	c.P.Notes = append(c.P.Notes, fmt.Sprintf(f, a...))
	c.mu.Unlock()
}

// Extra stores an extra evidence value.
func (c *Ctx) Extra(k string, v any) {
	c.mu.Lock()
	c.P.Extra[k] = v
	c.mu.Unlock()
}

// Inconclusive records a harness problem (exit 2, never a violation).
func (c *Ctx) Inconclusive(msg string) {
	c.mu.Lock()
	c.P.Inconclusive = append(c.P.Inconclusive, msg)
	c.mu.Unlock()
}

// HangPrefix starts the error text of a suspected non-termination.
const HangPrefix = "no return within "

// HangLimit is the in-process watchdog limit (VERIF_HANG_LIMIT seconds, default 20).
func HangLimit() time.Duration {
	return time.Duration(envInt("VERIF_HANG_LIMIT", 20)) * time.Second
}

var hangSeen atomicBool

type atomicBool struct {
	mu sync.Mutex
	v  bool
}

func (a *atomicBool) set()      { a.mu.Lock(); a.v = true; a.mu.Unlock() }
func (a *atomicBool) get() bool { a.mu.Lock(); defer a.mu.Unlock(); return a.v }

// Aborted reports whether a call hung in this process; the leaked goroutine
// keeps a core busy, so the remaining work of the process is skipped.
func Aborted() bool { return hangSeen.get() }

// Watch runs f (which must be self-contained: it may keep running after Watch
// returns) and reports an error starting with HangPrefix if it has not
// returned within HangLimit(). Panics inside f are converted to errors.
func Watch(what string, f func() error) error {
	if hangSeen.get() {
		return nil
	}
	done := make(chan error, 1)
	go func() { done <- Safe(f) }()
	lim := HangLimit()
	select {
	case err := <-done:
		return err
	case <-time.After(lim):
		hangSeen.set()
		return fmt.Errorf("%s%v: %s", HangPrefix, lim, what)
	}
}

// Safe runs f converting a panic into an error.
func Safe(f func() error) (err error) {
	defer func() {
		if r := recover(); r != nil {
			// keep the frames of the code under test (the first ones below the panic)
			var keep []string
			lines := strings.Split(string(debug.Stack()), "\n")
			for i := 0; i+1 < len(lines); i++ {
				if strings.Contains(lines[i+1], "/repo/") || strings.Contains(lines[i], "gozxing") && strings.Contains(lines[i+1], ".go:") {
					keep = append(keep, strings.TrimSpace(lines[i])+" @ "+strings.TrimSpace(lines[i+1]))
					i++
					if len(keep) >= 6 {
						break
					}
				}
			}
			err = fmt.Errorf("panic: %v\n%s", r, strings.Join(keep, "\n"))
		}
	}()
	return f()
}

// PanicErr marks errors that came from a recovered panic.
func IsPanic(err error) bool { return err != nil && strings.HasPrefix(err.Error(), "panic: ") }

// matchKnown returns the known finding matching this failure, if any.
func (c *Ctx) matchKnown(kind string, raw json.RawMessage, err error) *KnownFinding {
	for i := range c.known {
		k := &c.known[i]
		if k.Kind != "" && k.Kind != kind {
			continue
		}
		m := c.matchers[k.Class]
		if m == nil {
			continue
		}
		if m(raw, err) {
			return k
		}
	}
	return nil
}

func (c *Ctx) hitKnown(k *KnownFinding, witness bool) {
	c.mu.Lock()
	defer c.mu.Unlock()
	i, ok := c.knownIdx[k.ID]
	if !ok {
		c.P.Known = append(c.P.Known, KnownHit{ID: k.ID, What: k.What})
		i = len(c.P.Known) - 1
		c.knownIdx[k.ID] = i
	}
	c.P.Known[i].Count++
	if witness {
		c.P.Known[i].Witness = true
	}
}

// Eval runs the registered check for kind on case v. It returns nil when the
// property held or the failure is a listed known finding; otherwise the error.
// Every genuine failure is remembered (the last one is what rapid shrank to).
func (c *Ctx) Eval(kind string, v any) error {
	raw, err := json.Marshal(v)
	if err != nil {
		panic("hx: case not serialisable: " + err.Error())
	}
	fn := c.kinds[kind]
	if fn == nil {
		panic("hx: unregistered kind " + kind)
	}
	if Aborted() {
		return nil // a call hung earlier in this process: stop exploring (and stop shrinking)
	}
	JournalCase(kind, raw)
	e := Safe(func() error { return fn(raw) })
	if e == nil {
		return nil
	}
	if strings.HasPrefix(e.Error(), "hx:") {
		// the harness produced a case outside the domain: never a violation
		c.mu.Lock()
		if len(c.P.Inconclusive) < 5 {
			c.P.Inconclusive = append(c.P.Inconclusive, "harness error in kind "+kind+": "+e.Error())
		}
		c.mu.Unlock()
		return nil
	}
	if k := c.matchKnown(kind, raw, e); k != nil {
		c.hitKnown(k, false)
		return nil
	}
	c.mu.Lock()
	c.lastKind, c.lastCase, c.lastErr = kind, raw, e.Error()
	c.mu.Unlock()
	return e
}

type replayFile struct {
	Property string          `json:"property"`
	Kind     string          `json:"kind"`
	Sub      string          `json:"sub"`
	Seed     uint64          `json:"seed"`
	Tier     string          `json:"tier"`
	Error    string          `json:"error"`
	Case     json.RawMessage `json:"case"`
}

// Fail records a violation for sub from the last remembered failing case.
func (c *Ctx) Fail(sub string) {
	c.mu.Lock()
	kind, raw, msg := c.lastKind, c.lastCase, c.lastErr
	c.lastCase = nil
	c.mu.Unlock()
	if raw == nil {
		c.Inconclusive("sub-check " + sub + " failed without a recorded case")
		return
	}
	c.FailCase(sub, kind, raw, msg)
}

// FailCase records a violation with an explicit case.
func (c *Ctx) FailCase(sub, kind string, raw json.RawMessage, msg string) {
	dir := filepath.Join(VerifDir(), "replays", c.P.Property)
	os.MkdirAll(dir, 0o755)
	name := fmt.Sprintf("%s-%s-seed%d-shard%d-%x.json", sanitize(sub), c.P.Tier, c.P.Seed, c.P.Shard, Hash(raw)&0xffffff)
	path := filepath.Join(dir, name)
	b, _ := json.MarshalIndent(replayFile{Property: c.P.Property, Kind: kind, Sub: sub, Seed: c.P.Seed, Tier: c.P.Tier, Error: msg, Case: raw}, "", " ")
	if err := os.WriteFile(path, b, 0o644); err != nil {
		c.Inconclusive("cannot write replay: " + err.Error())
	}
	if len(msg) > 600 {
		msg = msg[:600]
	}
	c.mu.Lock()
	c.P.Violations = append(c.P.Violations, Violation{Sub: sub, Kind: kind, Replay: path, Msg: msg, Hang: strings.Contains(msg, HangPrefix)})
	c.stopSub[sub] = true
	c.mu.Unlock()
}

func sanitize(s string) string {
	r := []rune(s)
	for i, ch := range r {
		if !(ch >= 'a' && ch <= 'z' || ch >= 'A' && ch <= 'Z' || ch >= '0' && ch <= '9' || ch == '-' || ch == '_') {
			r[i] = '_'
		}
	}
	return string(r)
}

// Enum evaluates one enumerated (non-rapid) case; on a genuine failure it
// greedily shrinks with the optional shrink candidates function and records a
// violation. It returns false when the sub-check should stop.
func (c *Ctx) Enum(sub, kind string, v any, shrink func(v any) []any) bool {
	c.mu.Lock()
	stopped := c.stopSub[sub]
	c.mu.Unlock()
	if stopped {
		return false
	}
	if err := c.Eval(kind, v); err == nil {
		return true
	}
	if shrink != nil {
		cur := v
		deadline := time.Now().Add(20 * time.Second)
		for progress := true; progress && time.Now().Before(deadline); {
			progress = false
			for _, cand := range shrink(cur) {
				raw, _ := json.Marshal(cand)
				fn := c.kinds[kind]
				e := Safe(func() error { return fn(raw) })
				if e != nil && c.matchKnown(kind, raw, e) == nil {
					cur = cand
					c.mu.Lock()
					c.lastKind, c.lastCase, c.lastErr = kind, raw, e.Error()
					c.mu.Unlock()
					progress = true
					break
				}
			}
		}
	}
	c.Fail(sub)
	return false
}

// Stopped reports whether sub already has a violation.
func (c *Ctx) Stopped(sub string) bool {
	if Aborted() {
		return true
	}
	c.mu.Lock()
	defer c.mu.Unlock()
	return c.stopSub[sub]
}

// ---- rapid driver ---------------------------------------------------------

type failNow struct{}

type capTB struct {
	name   string
	failed bool
	logs   []string
}

func (b *capTB) Helper()                   {}
func (b *capTB) Name() string              { return b.name }
func (b *capTB) Logf(f string, a ...any)   { b.log(fmt.Sprintf(f, a...)) }
func (b *capTB) Log(a ...any)              { b.log(fmt.Sprint(a...)) }
func (b *capTB) Skipf(f string, a ...any)  { panic(failNow{}) }
func (b *capTB) Skip(a ...any)             { panic(failNow{}) }
func (b *capTB) SkipNow()                  { panic(failNow{}) }
func (b *capTB) Errorf(f string, a ...any) { b.failed = true; b.log(fmt.Sprintf(f, a...)) }
func (b *capTB) Error(a ...any)            { b.failed = true; b.log(fmt.Sprint(a...)) }
func (b *capTB) Fatalf(f string, a ...any) {
	b.failed = true
	b.log(fmt.Sprintf(f, a...))
	panic(failNow{})
}
func (b *capTB) Fatal(a ...any) { b.failed = true; b.log(fmt.Sprint(a...)); panic(failNow{}) }
func (b *capTB) FailNow()       { b.failed = true; panic(failNow{}) }
func (b *capTB) Fail()          { b.failed = true }
func (b *capTB) Failed() bool   { return b.failed }
func (b *capTB) log(s string) {
	if len(b.logs) < 50 {
		if len(s) > 2000 {
			s = s[:2000]
		}
		b.logs = append(b.logs, s)
	}
}

var rapidMu sync.Mutex

// Rapid runs prop under rapid with the given number of checks and a seed
// derived from (VERIF_SEED, shard, sub). A failure is recorded as a violation
// of sub using the last case remembered by Eval (rapid's minimal case).
func (c *Ctx) Rapid(sub string, checks int, prop func(t *rapid.T)) {
	c.RapidSteps(sub, checks, 0, prop)
}

// RapidSteps is Rapid with an explicit average number of Repeat steps.
func (c *Ctx) RapidSteps(sub string, checks, steps int, prop func(t *rapid.T)) {
	c.RapidIdx(sub, 0, checks, steps, prop)
}

// RapidIdx is RapidSteps with a seed index, for calling the same sub-check
// repeatedly (once per enumerated configuration) with different seeds.
func (c *Ctx) RapidIdx(sub string, idx, checks, steps int, prop func(t *rapid.T)) {
	if checks <= 0 || c.Stopped(sub) {
		return
	}
	rapidMu.Lock()
	defer rapidMu.Unlock()
	flag.Set("rapid.checks", strconv.Itoa(checks))
	flag.Set("rapid.seed", strconv.FormatUint(c.Seed(sub, idx)|1, 10))
	flag.Set("rapid.nofailfile", "true")
	flag.Set("rapid.shrinktime", "20s")
	if steps <= 0 {
		steps = 30
	}
	flag.Set("rapid.steps", strconv.Itoa(steps))
	c.mu.Lock()
	c.lastCase = nil
	c.mu.Unlock()
	tb := &capTB{name: c.P.Property + "/" + sub}
	func() {
		defer func() {
			if r := recover(); r != nil {
				if _, ok := r.(failNow); !ok {
					panic(r)
				}
			}
		}()
		rapid.Check(tb, prop)
	}()
	if tb.failed {
		c.mu.Lock()
		has := c.lastCase != nil
		c.mu.Unlock()
		if has {
			c.Fail(sub)
		} else {
			// failure without a recorded case: generator/harness problem
			c.Inconclusive("rapid sub-check " + sub + " failed without a case: " + strings.Join(tb.logs, " | "))
		}
	}
}

// ---- known-finding witnesses, replay, finish -------------------------------

// RunKnownWitnesses replays each listed known finding's witness.
func (c *Ctx) RunKnownWitnesses() {
	for i := range c.known {
		k := &c.known[i]
		fn := c.kinds[k.Kind]
		if fn == nil || k.Witness == nil {
			continue
		}
		e := Safe(func() error { return fn(k.Witness) })
		if e != nil {
			c.hitKnown(k, true)
		}
	}
}

// RunRegressions evaluates the saved inputs under regressions/<property>/ (minimised
// failures of defects that were repaired, and hand-written boundary inputs). They bypass
// the generators: a saved input that fails again is a violation like any other.
func (c *Ctx) RunRegressions() {
	dir := filepath.Join(VerifDir(), "regressions", c.P.Property)
	ents, err := os.ReadDir(dir)
	if err != nil {
		return
	}
	names := []string{}
	for _, e := range ents {
		if strings.HasSuffix(e.Name(), ".json") {
			names = append(names, e.Name())
		}
	}
	sort.Strings(names)
	for i, n := range names {
		if !c.Mine(i) {
			continue
		}
		b, err := os.ReadFile(filepath.Join(dir, n))
		if err != nil {
			continue
		}
		var rf replayFile
		if json.Unmarshal(b, &rf) != nil || c.kinds[rf.Kind] == nil {
			c.Inconclusive("regression file " + n + " cannot be used")
			continue
		}
		raw := rf.Case
		c.Note("saved_regression_inputs", "kind="+rf.Kind, true, Hash(raw), func() any { return map[string]any{"file": n, "case": raw} })
		c.Enum("saved_regression_inputs/"+n, rf.Kind, raw, nil)
	}
}

// Replay runs a replay file; returns the failure (nil if the case passes now).
func (c *Ctx) Replay(path string) error {
	b, err := os.ReadFile(path)
	if err != nil {
		return fmt.Errorf("hx: %w", err)
	}
	var rf replayFile
	if err := json.Unmarshal(b, &rf); err != nil {
		return fmt.Errorf("hx: %w", err)
	}
	fn := c.kinds[rf.Kind]
	if fn == nil {
		return fmt.Errorf("hx: unknown kind %q", rf.Kind)
	}
	JournalCase(rf.Kind, rf.Case)
	return Safe(func() error { return fn(rf.Case) })
}

// Finish writes the part file.
func (c *Ctx) Finish() {
	c.mu.Lock()
	defer c.mu.Unlock()
	c.P.WallS = time.Since(c.start).Seconds()
	c.P.Done = true
	if c.outPath == "" {
		b, _ := json.MarshalIndent(c.P, "", " ")
		c.T.Logf("part: %s", b)
		if len(c.P.Violations) > 0 {
			c.T.Errorf("violations: %+v", c.P.Violations)
		}
		return
	}
	hs := make([]uint64, 0, len(c.hashes))
	for h := range c.hashes {
		hs = append(hs, h)
	}
	sort.Slice(hs, func(i, j int) bool { return hs[i] < hs[j] })
	hb := make([]byte, 8*len(hs))
	for i, h := range hs {
		binary.LittleEndian.PutUint64(hb[8*i:], h)
	}
	c.P.HashFile = c.outPath + ".hashes"
	os.WriteFile(c.P.HashFile, hb, 0o644)
	b, _ := json.Marshal(c.P)
	if err := os.WriteFile(c.outPath, b, 0o644); err != nil {
		c.T.Fatalf("cannot write part: %v", err)
	}
}

// Main is the standard TestCheck body: register kinds, run witnesses, then
// either replay (VERIF_REPLAY) or run the sub-checks.
func Main(t *testing.T, property string, setup func(c *Ctx), run func(c *Ctx)) {
	c := New(t, property)
	setup(c)
	if p := os.Getenv("VERIF_REPLAY"); p != "" {
		err := c.Replay(p)
		if err != nil && strings.HasPrefix(err.Error(), "hx: ") {
			c.Inconclusive(err.Error())
		} else if err != nil {
			msg := err.Error()
			if len(msg) > 600 {
				msg = msg[:600]
			}
			c.P.Violations = append(c.P.Violations, Violation{Sub: "replay", Replay: p, Msg: msg, Hang: strings.Contains(msg, HangPrefix)})
		}
		c.P.Evaluations = 1
		c.Finish()
		return
	}
	c.RunKnownWitnesses()
	c.RunRegressions()
	run(c)
	c.Finish()
}

// ---- small deterministic PRNG for payloads inside enumerations -------------

// Rng is splitmix64.
type Rng struct{ s uint64 }

func NewRng(seed uint64) *Rng { return &Rng{s: seed} }
func (r *Rng) U64() uint64 {
	r.s += 0x9e3779b97f4a7c15
	z := r.s
	z = (z ^ (z >> 30)) * 0xbf58476d1ce4e5b9
	z = (z ^ (z >> 27)) * 0x94d049bb133111eb
	return z ^ (z >> 31)
}
func (r *Rng) Intn(n int) int {
	if n <= 0 {
		return 0
	}
	return int(r.U64() % uint64(n))
}
func (r *Rng) Bool() bool { return r.U64()&1 == 1 }
