// Package onedx: helpers shared by the 1-D checks (writer/reader registry,
// content generators, canonical forms, image rendering of module strings).
package onedx

import (
	"strings"

	"github.com/makiuchi-d/gozxing"
	"github.com/makiuchi-d/gozxing/oned"

	"verif/internal/hx"
	"verif/internal/onedref"
)

// Sym describes one writable 1-D symbology.
type Sym struct {
	Name          string
	Format        gozxing.BarcodeFormat
	Writer        func() gozxing.Writer
	Reader        func() gozxing.Reader
	DefaultMargin int
	UPCEAN        bool
}

var Syms = []Sym{
	{"EAN13", gozxing.BarcodeFormat_EAN_13, oned.NewEAN13Writer, oned.NewEAN13Reader, 9, true},
	{"EAN8", gozxing.BarcodeFormat_EAN_8, oned.NewEAN8Writer, oned.NewEAN8Reader, 9, true},
	{"UPCA", gozxing.BarcodeFormat_UPC_A, oned.NewUPCAWriter, oned.NewUPCAReader, 9, true},
	{"UPCE", gozxing.BarcodeFormat_UPC_E, oned.NewUPCEWriter, oned.NewUPCEReader, 9, true},
	{"ITF", gozxing.BarcodeFormat_ITF, oned.NewITFWriter, oned.NewITFReader, 10, false},
	{"CODE39", gozxing.BarcodeFormat_CODE_39, oned.NewCode39Writer, oned.NewCode39Reader, 10, false},
	{"CODE39X", gozxing.BarcodeFormat_CODE_39, oned.NewCode39Writer, func() gozxing.Reader { return oned.NewCode39ReaderWithFlags(false, true) }, 10, false},
	{"CODE93", gozxing.BarcodeFormat_CODE_93, oned.NewCode93Writer, oned.NewCode93Reader, 10, false},
	{"CODE128", gozxing.BarcodeFormat_CODE_128, oned.NewCode128Writer, oned.NewCode128Reader, 10, false},
	{"CODABAR", gozxing.BarcodeFormat_CODABAR, oned.NewCodaBarWriter, oned.NewCodaBarReader, 10, false},
}

func SymByName(n string) *Sym {
	for i := range Syms {
		if Syms[i].Name == n {
			return &Syms[i]
		}
	}
	return nil
}

const Code39Alphabet = "0123456789ABCDEFGHIJKLMNOPQRSTUVWXYZ-. $/+%"
const CodabarData = "0123456789-$:/.+"

func randDigits(rng *hx.Rng, n int) string {
	b := make([]byte, n)
	for i := range b {
		b[i] = byte('0' + rng.Intn(10))
	}
	return string(b)
}

func pick(rng *hx.Rng, alphabet string, n int) string {
	b := make([]byte, n)
	for i := range b {
		b[i] = alphabet[rng.Intn(len(alphabet))]
	}
	return string(b)
}

// Content draws an accepted content for the symbology and returns it with its
// canonical read-back form and a class label.
func Content(sym string, rng *hx.Rng) (content, canonical, class string) {
	switch sym {
	case "EAN13":
		d := randDigits(rng, 12)
		full := d + string(rune('0'+onedref.CheckDigit(d)))
		if rng.Bool() {
			return d, full, "no_check_digit"
		}
		return full, full, "with_check_digit"
	case "EAN8":
		d := randDigits(rng, 7)
		full := d + string(rune('0'+onedref.CheckDigit(d)))
		if rng.Bool() {
			return d, full, "no_check_digit"
		}
		return full, full, "with_check_digit"
	case "UPCA":
		d := randDigits(rng, 11)
		full := d + string(rune('0'+onedref.CheckDigit(d)))
		if rng.Bool() {
			return d, full, "no_check_digit"
		}
		return full, full, "with_check_digit"
	case "UPCE":
		d := string(rune('0'+rng.Intn(2))) + randDigits(rng, 6)
		full := d + string(rune('0'+onedref.CheckDigit(onedref.ExpandUPCE(d))))
		if rng.Bool() {
			return d, full, "no_check_digit"
		}
		return full, full, "with_check_digit"
	case "ITF":
		lens := []int{6, 8, 10, 12, 14}
		n := lens[rng.Intn(len(lens))]
		cl := "len<=14"
		if rng.Bool() {
			n = 16 + 2*rng.Intn(33)
			cl = "len>14"
		}
		d := randDigits(rng, n)
		return d, d, cl
	case "CODE39":
		n := 1 + rng.Intn(80)
		if rng.Bool() {
			n = 1 + rng.Intn(12)
		}
		s := pick(rng, Code39Alphabet, n)
		return s, s, "alphabet"
	case "CODE39X":
		// full ASCII with at least one character outside the alphabet; extended length <= 80
		for {
			n := 1 + rng.Intn(30)
			b := make([]byte, n)
			for i := range b {
				b[i] = byte(rng.Intn(128))
			}
			const outside = "abcxyz!#&'()*,:;<=>?@[\\]^_`{|}~\x00\x01\x1b\x7f"
			b[rng.Intn(n)] = outside[rng.Intn(len(outside))]
			s := string(b)
			if Code39ExtLen(s) <= 80 {
				return s, s, "full_ascii"
			}
		}
	case "CODE93":
		for {
			n := 1 + rng.Intn(40)
			b := make([]byte, n)
			kind := rng.Intn(3)
			for i := range b {
				switch kind {
				case 0:
					b[i] = Code39Alphabet[rng.Intn(len(Code39Alphabet))]
				default:
					b[i] = byte(rng.Intn(128))
				}
			}
			s := string(b)
			if Code93ExtLen(s) <= 80 {
				cl := "alphabet"
				if kind != 0 {
					cl = "full_ascii"
				}
				return s, s, cl
			}
		}
	case "CODE128":
		// runs of digits / controls / lower / upper+punctuation so that sets A, B, C and transitions occur
		var sb strings.Builder
		used := map[string]bool{}
		target := 1 + rng.Intn(80)
		if rng.Bool() {
			target = 1 + rng.Intn(16)
		}
		for sb.Len() < target {
			l := 1 + rng.Intn(8)
			if sb.Len()+l > target {
				l = target - sb.Len()
			}
			switch rng.Intn(5) {
			case 0:
				sb.WriteString(randDigits(rng, l))
				used["digits"] = true
			case 1:
				for i := 0; i < l; i++ {
					sb.WriteByte(byte(rng.Intn(32)))
				}
				used["controls"] = true
			case 2:
				sb.WriteString(pick(rng, "abcdefghijklmnopqrstuvwxyz`{|}~\x7f", l))
				used["lower"] = true
			case 3:
				sb.WriteString(pick(rng, "ABCDEFGHIJKLMNOPQRSTUVWXYZ !\"#$%&'()*+,-./:;<=>?@[\\]^_", l))
				used["upper"] = true
			default:
				sb.WriteString(randDigits(rng, 2*(1+rng.Intn(6))))
				used["digits"] = true
			}
		}
		s := sb.String()
		if len(s) > 80 {
			s = s[:80]
		}
		var cl []string
		for _, k := range []string{"digits", "controls", "lower", "upper"} {
			if used[k] {
				cl = append(cl, k)
			}
		}
		return s, s, strings.Join(cl, "+")
	case "CODABAR":
		n := 2 + rng.Intn(30)
		data := pick(rng, CodabarData, n)
		guards := []string{"", "AA", "AB", "AC", "AD", "BA", "BB", "BC", "BD", "CA", "CB", "CC", "CD", "DA", "DB", "DC", "DD",
			"TT", "TN", "T*", "TE", "NT", "NN", "N*", "NE", "*T", "*N", "**", "*E", "ET", "EN", "E*", "EE"}
		g := guards[rng.Intn(len(guards))]
		if g == "" {
			return data, data, "no_guards"
		}
		if rng.Intn(4) == 0 {
			g = strings.ToLower(g)
		}
		return g[:1] + data + g[1:], data, "guards=" + strings.ToUpper(g)
	}
	panic("unknown symbology " + sym)
}

// Code39ExtLen is the length of the extended (full ASCII) form.
func Code39ExtLen(s string) int {
	n := 0
	for i := 0; i < len(s); i++ {
		c := s[i]
		switch {
		case c == ' ' || c == '-' || c == '.' || (c >= '0' && c <= '9') || (c >= 'A' && c <= 'Z'):
			n++
		default:
			n += 2
		}
	}
	return n
}

// Code93ExtLen is the length of the extended form used by the Code 93 writer.
func Code93ExtLen(s string) int {
	n := 0
	for i := 0; i < len(s); i++ {
		c := s[i]
		switch {
		case c == ' ' || c == '-' || c == '.' || c == '$' || c == '/' || c == '+' || c == '%' || (c >= '0' && c <= '9') || (c >= 'A' && c <= 'Z'):
			n++
		default:
			n += 2
		}
	}
	return n
}

// Render draws a module string ('1' = bar) as an image: quiet modules on both
// sides, integer scale, given height.
func Render(mod string, quietLeft, quietRight, scale, height int) *gozxing.BitMatrix {
	w := (len(mod) + quietLeft + quietRight) * scale
	bm, _ := gozxing.NewBitMatrix(w, height)
	for i := 0; i < len(mod); i++ {
		if mod[i] == '1' {
			bm.SetRegion((quietLeft+i)*scale, 0, scale, height)
		}
	}
	return bm
}

// ModulesOf extracts the module string from a writer output row rendered at
// natural size with margin 0 (one module per pixel).
func ModulesOf(bm *gozxing.BitMatrix) string {
	b := make([]byte, bm.GetWidth())
	for x := range b {
		if bm.Get(x, 0) {
			b[x] = '1'
		} else {
			b[x] = '0'
		}
	}
	return string(b)
}
