// Package gfref is an independent GF(2^m) / Reed-Solomon reference: no tables,
// multiplication by shift-and-xor modulo the primitive polynomial.
package gfref

// Field is GF(2^m) given by its primitive polynomial (with the x^m term) and size 2^m.
type Field struct {
	Prim int // e.g. 0x11D
	Size int // e.g. 256
	Base int // generator base b: roots alpha^b .. alpha^(b+r-1)
}

var (
	QR256  = Field{0x11D, 256, 0}
	DM256  = Field{0x12D, 256, 1}
	Az16   = Field{0x13, 16, 1}
	Az64   = Field{0x43, 64, 1}
	Az1024 = Field{0x409, 1024, 1}
	Az4096 = Field{0x1069, 4096, 1}
)

// Mul is the carry-less product of a and b reduced modulo Prim.
func (f Field) Mul(a, b int) int {
	r := 0
	for b != 0 {
		if b&1 != 0 {
			r ^= a
		}
		b >>= 1
		a <<= 1
		if a&f.Size != 0 {
			a ^= f.Prim
		}
	}
	return r
}

// Pow computes a^e by square and multiply.
func (f Field) Pow(a, e int) int {
	r := 1
	for e > 0 {
		if e&1 != 0 {
			r = f.Mul(r, a)
		}
		a = f.Mul(a, a)
		e >>= 1
	}
	return r
}

// Alpha returns 2^e.
func (f Field) Alpha(e int) int {
	e %= f.Size - 1
	if e < 0 {
		e += f.Size - 1
	}
	return f.Pow(2, e)
}

// Inv returns the multiplicative inverse a^(size-2).
func (f Field) Inv(a int) int { return f.Pow(a, f.Size-2) }

// Generator returns the coefficients (highest degree first, monic) of
// prod_{i=0}^{r-1} (x - alpha^(Base+i)).
func (f Field) Generator(r int) []int {
	g := []int{1}
	for i := 0; i < r; i++ {
		root := f.Alpha(f.Base + i)
		ng := make([]int, len(g)+1)
		for j, c := range g {
			ng[j] ^= c
			ng[j+1] ^= f.Mul(c, root)
		}
		g = ng
	}
	return g
}

// Parity returns the r parity symbols of the systematic RS code for data
// (LFSR division of data(x)*x^r by the generator).
func (f Field) Parity(data []int, r int) []int {
	g := f.Generator(r)
	reg := make([]int, r)
	for _, d := range data {
		fb := d ^ reg[0]
		copy(reg, reg[1:])
		reg[r-1] = 0
		if fb != 0 {
			for j := 0; j < r; j++ {
				reg[j] ^= f.Mul(fb, g[j+1])
			}
		}
	}
	return reg
}

// Eval evaluates the word (highest degree first) at x by Horner's rule.
func (f Field) Eval(word []int, x int) int {
	v := 0
	for _, c := range word {
		v = f.Mul(v, x) ^ c
	}
	return v
}

// Syndromes returns word(alpha^(Base+i)) for i < r.
func (f Field) Syndromes(word []int, r int) []int {
	s := make([]int, r)
	for i := range s {
		s[i] = f.Eval(word, f.Alpha(f.Base+i))
	}
	return s
}
