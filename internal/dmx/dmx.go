// Package dmx holds helpers shared by the Data Matrix checks.
package dmx

import (
	"fmt"

	"github.com/makiuchi-d/gozxing"
	"github.com/makiuchi-d/gozxing/datamatrix/encoder"

	"verif/internal/dmref"
)

// Dim returns the library Dimension of a symbol size (width = cols, height = rows).
func Dim(a dmref.Attr) *gozxing.Dimension {
	d, _ := gozxing.NewDimension(a.Cols, a.Rows)
	return d
}

// LibSymbol looks the size up in the library's symbol table.
func LibSymbol(a dmref.Attr) (*encoder.SymbolInfo, error) {
	si, err := encoder.SymbolInfo_Lookup(a.Data, encoder.SymbolShapeHint_FORCE_NONE, Dim(a), Dim(a), true)
	if err != nil {
		return nil, err
	}
	if si == nil {
		return nil, fmt.Errorf("SymbolInfo_Lookup returned nil without error")
	}
	return si, nil
}

// ForceHints returns encode hints that force the given symbol size.
func ForceHints(a dmref.Attr) map[gozxing.EncodeHintType]interface{} {
	return map[gozxing.EncodeHintType]interface{}{
		gozxing.EncodeHintType_MIN_SIZE: Dim(a),
		gozxing.EncodeHintType_MAX_SIZE: Dim(a),
	}
}

// MatrixOf converts a [][]bool symbol to a BitMatrix.
func MatrixOf(m [][]bool) *gozxing.BitMatrix {
	bm, _ := gozxing.NewBitMatrix(len(m[0]), len(m))
	for y := range m {
		for x := range m[y] {
			if m[y][x] {
				bm.Set(x, y)
			}
		}
	}
	return bm
}

// SizeName is "RxC".
func SizeName(a dmref.Attr) string { return fmt.Sprintf("%dx%d", a.Rows, a.Cols) }
