// Package azref is an independent Aztec Code encoder (ISO/IEC 24778) used as
// the symbol source for C11 / C06: token -> bits, bit stuffing, Reed-Solomon,
// mode message, layout with reference grid. The library has no Aztec writer.
package azref

import (
	"fmt"

	"verif/internal/gfref"
)

// Tables.
const (
	Upper = iota
	Lower
	Mixed
	Punct
	Digit
)

var TableNames = []string{"upper", "lower", "mixed", "punct", "digit"}

// chars[table][code] = text of the code ("" for control codes).
var chars = [5][]string{
	{"", " ", "A", "B", "C", "D", "E", "F", "G", "H", "I", "J", "K", "L", "M", "N", "O", "P", "Q", "R", "S", "T", "U", "V", "W", "X", "Y", "Z", "", "", "", ""},
	{"", " ", "a", "b", "c", "d", "e", "f", "g", "h", "i", "j", "k", "l", "m", "n", "o", "p", "q", "r", "s", "t", "u", "v", "w", "x", "y", "z", "", "", "", ""},
	{"", " ", "\x01", "\x02", "\x03", "\x04", "\x05", "\x06", "\x07", "\x08", "\x09", "\x0a", "\x0b", "\x0c", "\x0d", "\x1b", "\x1c", "\x1d", "\x1e", "\x1f", "@", "\\", "^", "_", "`", "|", "~", "\x7f", "", "", "", ""},
	{"", "\r", "\r\n", ". ", ", ", ": ", "!", "\"", "#", "$", "%", "&", "'", "(", ")", "*", "+", ",", "-", ".", "/", ":", ";", "<", "=", ">", "?", "[", "]", "{", "}", ""},
	{"", " ", "0", "1", "2", "3", "4", "5", "6", "7", "8", "9", ",", ".", "", ""},
}

// CharCodes returns the codes of a table that stand for text.
func CharCodes(table int) []int {
	var out []int
	for c, s := range chars[table] {
		if s != "" {
			out = append(out, c)
		}
	}
	return out
}

// latch[from][to] = code sequence (codes in the successive tables) or nil.
// Only direct single-code latches are listed; the generator walks them.
var latch = map[[2]int]int{
	{Upper, Lower}: 28, {Upper, Mixed}: 29, {Upper, Digit}: 30,
	{Lower, Mixed}: 29, {Lower, Digit}: 30,
	{Mixed, Lower}: 28, {Mixed, Upper}: 29, {Mixed, Punct}: 30,
	{Punct, Upper}: 31,
	{Digit, Upper}: 14,
}

// Latches lists the tables reachable from t by one latch code.
func Latches(t int) []int {
	var out []int
	for to := 0; to < 5; to++ {
		if _, ok := latch[[2]int{t, to}]; ok {
			out = append(out, to)
		}
	}
	return out
}

// Token is one step of the encodation.
type Token struct {
	Kind  string `json:"k"`           // char | latch | ps | us | bs | fnc1
	Code  int    `json:"c,omitempty"` // char: code in the current table; ps: punct code; us: upper code; latch: target table
	Bytes []byte `json:"b,omitempty"` // bs: bytes
}

func bitsOf(table int) int {
	if table == Digit {
		return 4
	}
	return 5
}

type bitBuf struct{ b []bool }

func (b *bitBuf) put(v, n int) {
	for i := n - 1; i >= 0; i-- {
		b.b = append(b.b, (v>>uint(i))&1 == 1)
	}
}

// Encode turns tokens into data bits and the text they stand for (ISO-8859-1
// bytes of binary shifts become the corresponding runes). It validates the walk.
func Encode(tokens []Token) ([]bool, string, error) {
	var bb bitBuf
	var text []rune
	cur := Upper
	for i, tk := range tokens {
		switch tk.Kind {
		case "char":
			if tk.Code < 0 || tk.Code >= len(chars[cur]) || chars[cur][tk.Code] == "" {
				return nil, "", fmt.Errorf("token %d: code %d is not a character of table %s", i, tk.Code, TableNames[cur])
			}
			bb.put(tk.Code, bitsOf(cur))
			text = append(text, []rune(chars[cur][tk.Code])...)
		case "latch":
			code, ok := latch[[2]int{cur, tk.Code}]
			if !ok {
				return nil, "", fmt.Errorf("token %d: no latch %s -> %d", i, TableNames[cur], tk.Code)
			}
			bb.put(code, bitsOf(cur))
			cur = tk.Code
		case "ps": // punctuation shift, from upper / lower / mixed / digit
			if cur == Punct || tk.Code < 1 || tk.Code > 30 {
				return nil, "", fmt.Errorf("token %d: bad P/S", i)
			}
			bb.put(0, bitsOf(cur))
			bb.put(tk.Code, 5)
			text = append(text, []rune(chars[Punct][tk.Code])...)
		case "us": // upper shift, from lower (28) / digit (15)
			if cur != Lower && cur != Digit {
				return nil, "", fmt.Errorf("token %d: U/S not available in %s", i, TableNames[cur])
			}
			if tk.Code < 1 || tk.Code > 27 {
				return nil, "", fmt.Errorf("token %d: bad U/S code", i)
			}
			if cur == Lower {
				bb.put(28, 5)
			} else {
				bb.put(15, 4)
			}
			bb.put(tk.Code, 5)
			text = append(text, []rune(chars[Upper][tk.Code])...)
		case "bs": // binary shift, from upper / lower / mixed
			if cur == Punct || cur == Digit {
				return nil, "", fmt.Errorf("token %d: B/S not available in %s", i, TableNames[cur])
			}
			n := len(tk.Bytes)
			if n < 1 || n > 2078 {
				return nil, "", fmt.Errorf("token %d: bad B/S length %d", i, n)
			}
			bb.put(31, 5)
			if n <= 31 {
				bb.put(n, 5)
			} else {
				bb.put(0, 5)
				bb.put(n-31, 11)
			}
			for _, v := range tk.Bytes {
				bb.put(int(v), 8)
				text = append(text, rune(v))
			}
		case "fnc1": // FLG(0) in latched punctuation mode
			if cur != Punct {
				return nil, "", fmt.Errorf("token %d: FLG(0) only generated in latched punct", i)
			}
			bb.put(0, 5)
			bb.put(0, 3)
			text = append(text, 29)
		default:
			return nil, "", fmt.Errorf("token %d: kind %q", i, tk.Kind)
		}
	}
	return bb.b, string(text), nil
}

// ---------------------------------------------------------------- symbol

// Spec identifies a symbol size.
type Spec struct {
	Compact bool
	Layers  int
}

// AllSpecs lists the 4 compact and 32 full-range sizes.
func AllSpecs() []Spec {
	var out []Spec
	for l := 1; l <= 4; l++ {
		out = append(out, Spec{true, l})
	}
	for l := 1; l <= 32; l++ {
		out = append(out, Spec{false, l})
	}
	return out
}

func (s Spec) String() string {
	if s.Compact {
		return fmt.Sprintf("compact-%d", s.Layers)
	}
	return fmt.Sprintf("full-%d", s.Layers)
}

// TotalBits is the number of data-layer modules.
func (s Spec) TotalBits() int {
	if s.Compact {
		return (88 + 16*s.Layers) * s.Layers
	}
	return (112 + 16*s.Layers) * s.Layers
}

// WordSize is the codeword size in bits.
func (s Spec) WordSize() int {
	switch {
	case s.Layers <= 2:
		return 6
	case s.Layers <= 8:
		return 8
	case s.Layers <= 22:
		return 10
	}
	return 12
}

// Words is the total number of codewords.
func (s Spec) Words() int { return s.TotalBits() / s.WordSize() }

// MaxDataWords is the largest data word count the mode message can express.
func (s Spec) MaxDataWords() int {
	if s.Compact {
		return 64
	}
	return 2048
}

func fieldFor(w int) gfref.Field {
	switch w {
	case 4:
		return gfref.Az16
	case 6:
		return gfref.Az64
	case 8:
		return gfref.DM256
	case 10:
		return gfref.Az1024
	}
	return gfref.Az4096
}

// Stuff applies bit stuffing for word size w; returns the stuffed words.
func Stuff(bits []bool, w int) []int {
	var out []int
	n := len(bits)
	mask := (1 << uint(w)) - 2
	for i := 0; i < n; i += w {
		word := 0
		for j := 0; j < w; j++ {
			if i+j >= n || bits[i+j] {
				word |= 1 << uint(w-1-j)
			}
		}
		switch {
		case word&mask == mask:
			out = append(out, word&mask)
			i--
		case word&mask == 0:
			out = append(out, word|1)
			i--
		default:
			out = append(out, word)
		}
	}
	return out
}

// Symbol is a constructed Aztec symbol.
type Symbol struct {
	Spec      Spec
	Size      int      // modules per side
	M         [][]bool // [y][x]
	DataWords int      // k
	Words     []int    // all codewords (data + check)
	// WordModules[i] = module coordinates (x,y) of the bits of codeword i, MSB first
	WordModules [][][2]int
	// ModeModules = module coordinates of the mode message bits in nibble order
	ModeModules [][2]int
}

// Build constructs the symbol for data bits in the given size; ok=false when
// the stuffed message leaves fewer than minCheck check words.
func Build(bits []bool, s Spec, minCheck int) (*Symbol, bool) {
	w := s.WordSize()
	data := Stuff(bits, w)
	k := len(data)
	n := s.Words()
	if k < 1 || k > s.MaxDataWords() || n-k < minCheck {
		return nil, false
	}
	f := fieldFor(w)
	par := f.Parity(data, n-k)
	words := append(append([]int(nil), data...), par...)
	total := s.TotalBits()
	msg := make([]bool, 0, total)
	for i := 0; i < total%w; i++ {
		msg = append(msg, false)
	}
	for _, wd := range words {
		for b := w - 1; b >= 0; b-- {
			msg = append(msg, (wd>>uint(b))&1 == 1)
		}
	}
	sym := &Symbol{Spec: s, DataWords: k, Words: words}
	base := 14 + 4*s.Layers
	if s.Compact {
		base = 11 + 4*s.Layers
	}
	amap := make([]int, base)
	size := base
	if s.Compact {
		for i := range amap {
			amap[i] = i
		}
	} else {
		size = base + 1 + 2*((base/2-1)/15)
		oc, c := base/2, size/2
		for i := 0; i < oc; i++ {
			off := i + i/15
			amap[oc-i-1] = c - off - 1
			amap[oc+i] = c + off + 1
		}
	}
	sym.Size = size
	sym.M = make([][]bool, size)
	for y := range sym.M {
		sym.M[y] = make([]bool, size)
	}
	pos := make([][2]int, total) // message bit -> (x,y)
	rowOffset := 0
	for i := 0; i < s.Layers; i++ {
		rowSize := (s.Layers-i)*4 + 12
		if s.Compact {
			rowSize = (s.Layers-i)*4 + 9
		}
		for j := 0; j < rowSize; j++ {
			col := j * 2
			for kk := 0; kk < 2; kk++ {
				pos[rowOffset+col+kk] = [2]int{amap[i*2+kk], amap[i*2+j]}
				pos[rowOffset+rowSize*2+col+kk] = [2]int{amap[i*2+j], amap[base-1-i*2-kk]}
				pos[rowOffset+rowSize*4+col+kk] = [2]int{amap[base-1-i*2-kk], amap[base-1-i*2-j]}
				pos[rowOffset+rowSize*6+col+kk] = [2]int{amap[base-1-i*2-j], amap[i*2+kk]}
			}
		}
		rowOffset += rowSize * 8
	}
	for i, b := range msg {
		if b {
			sym.M[pos[i][1]][pos[i][0]] = true
		}
	}
	pad := total % w
	for i := 0; i < n; i++ {
		var mods [][2]int
		for b := 0; b < w; b++ {
			mods = append(mods, pos[pad+i*w+b])
		}
		sym.WordModules = append(sym.WordModules, mods)
	}
	// mode message
	var mm bitBuf
	var nibbles []int
	if s.Compact {
		mm.put(s.Layers-1, 2)
		mm.put(k-1, 6)
	} else {
		mm.put(s.Layers-1, 5)
		mm.put(k-1, 11)
	}
	for i := 0; i+4 <= len(mm.b); i += 4 {
		v := 0
		for j := 0; j < 4; j++ {
			v <<= 1
			if mm.b[i+j] {
				v |= 1
			}
		}
		nibbles = append(nibbles, v)
	}
	tot := 10
	if s.Compact {
		tot = 7
	}
	nibbles = append(nibbles, gfref.Az16.Parity(nibbles, tot-len(nibbles))...)
	var mbits []bool
	for _, v := range nibbles {
		for b := 3; b >= 0; b-- {
			mbits = append(mbits, (v>>uint(b))&1 == 1)
		}
	}
	c := size / 2
	mpos := make([][2]int, len(mbits))
	if s.Compact {
		for i := 0; i < 7; i++ {
			off := c - 3 + i
			mpos[i] = [2]int{off, c - 5}
			mpos[i+7] = [2]int{c + 5, off}
			mpos[20-i] = [2]int{off, c + 5}
			mpos[27-i] = [2]int{c - 5, off}
		}
	} else {
		for i := 0; i < 10; i++ {
			off := c - 5 + i + i/5
			mpos[i] = [2]int{off, c - 7}
			mpos[i+10] = [2]int{c + 7, off}
			mpos[29-i] = [2]int{off, c + 7}
			mpos[39-i] = [2]int{c - 7, off}
		}
	}
	for i, b := range mbits {
		if b {
			sym.M[mpos[i][1]][mpos[i][0]] = true
		}
	}
	sym.ModeModules = mpos
	// bull's eye and orientation marks
	bs := 7
	if s.Compact {
		bs = 5
	}
	set := func(x, y int) { sym.M[y][x] = true }
	for i := 0; i < bs; i += 2 {
		for j := c - i; j <= c+i; j++ {
			set(j, c-i)
			set(j, c+i)
			set(c-i, j)
			set(c+i, j)
		}
	}
	set(c-bs, c-bs)
	set(c-bs+1, c-bs)
	set(c-bs, c-bs+1)
	set(c+bs, c-bs)
	set(c+bs, c-bs+1)
	set(c+bs, c+bs-1)
	// reference grid
	if !s.Compact {
		for i, j := 0, 0; i < base/2-1; i, j = i+15, j+16 {
			for kk := c & 1; kk < size; kk += 2 {
				set(c-j, kk)
				set(c+j, kk)
				set(kk, c-j)
				set(kk, c+j)
			}
		}
	}
	return sym, true
}

// SmallestSpec returns the smallest size (compact preferred when equal area is
// not an issue: compact 1..4 first, then full 1..32) that holds the bits with
// at least minCheck check words.
func SmallestSpec(bits []bool, minCheck int) (Spec, bool) {
	for _, s := range AllSpecs() {
		if _, ok := Build(bits, s, minCheck); ok {
			return s, true
		}
	}
	return Spec{}, false
}
