// Package qrx holds helpers shared by the QR checks: level conversion, payload
// generators per mode, Shift_JIS material, matrix conversion.
package qrx

import (
	"strings"

	"github.com/makiuchi-d/gozxing"
	"github.com/makiuchi-d/gozxing/qrcode/decoder"
	"github.com/makiuchi-d/gozxing/qrcode/encoder"
	"golang.org/x/text/encoding/japanese"

	"verif/internal/hx"
	"verif/internal/qrref"
)

// LibLevel converts a qrref level index (L,M,Q,H = 0..3) to the library constant.
func LibLevel(l int) decoder.ErrorCorrectionLevel {
	return [4]decoder.ErrorCorrectionLevel{decoder.ErrorCorrectionLevel_L, decoder.ErrorCorrectionLevel_M, decoder.ErrorCorrectionLevel_Q, decoder.ErrorCorrectionLevel_H}[l]
}

// LevelIndex converts a library level to the qrref index.
func LevelIndex(l decoder.ErrorCorrectionLevel) int {
	switch l {
	case decoder.ErrorCorrectionLevel_L:
		return 0
	case decoder.ErrorCorrectionLevel_M:
		return 1
	case decoder.ErrorCorrectionLevel_Q:
		return 2
	case decoder.ErrorCorrectionLevel_H:
		return 3
	}
	return -1
}

// ByteMatrixToBits converts the encoder's module matrix to a BitMatrix.
func ByteMatrixToBits(m *encoder.ByteMatrix) *gozxing.BitMatrix {
	bm, _ := gozxing.NewBitMatrix(m.GetWidth(), m.GetHeight())
	for y := 0; y < m.GetHeight(); y++ {
		for x := 0; x < m.GetWidth(); x++ {
			if m.Get(x, y) == 1 {
				bm.Set(x, y)
			}
		}
	}
	return bm
}

// RefToBits converts a reference matrix to a BitMatrix.
func RefToBits(m *qrref.Matrix) *gozxing.BitMatrix {
	bm, _ := gozxing.NewBitMatrix(m.N, m.N)
	for y := 0; y < m.N; y++ {
		for x := 0; x < m.N; x++ {
			if m.M[y][x] {
				bm.Set(x, y)
			}
		}
	}
	return bm
}

const AlnumChars = "0123456789ABCDEFGHIJKLMNOPQRSTUVWXYZ $%*+-./:"

// kanjiRunes: runes whose Shift_JIS form is a double byte in the QR Kanji-mode
// ranges and that round-trip through x/text.
var kanjiRunes []rune

func init() {
	enc := japanese.ShiftJIS.NewEncoder()
	dec := japanese.ShiftJIS.NewDecoder()
	for hi := 0x81; hi <= 0xEB; hi++ {
		if hi > 0x9F && hi < 0xE0 {
			continue
		}
		for lo := 0x40; lo <= 0xFC; lo++ {
			if lo == 0x7F {
				continue
			}
			code := hi<<8 | lo
			if !(code >= 0x8140 && code <= 0x9FFC) && !(code >= 0xE040 && code <= 0xEBBF) {
				continue
			}
			u, err := dec.Bytes([]byte{byte(hi), byte(lo)})
			if err != nil {
				continue
			}
			rs := []rune(string(u))
			if len(rs) != 1 || rs[0] == 0xFFFD || rs[0] < 0x80 {
				continue
			}
			back, err := enc.Bytes([]byte(string(rs)))
			if err != nil || len(back) != 2 || back[0] != byte(hi) || back[1] != byte(lo) {
				continue
			}
			kanjiRunes = append(kanjiRunes, rs[0])
		}
	}
}

// KanjiRunes returns the usable Kanji-mode repertoire.
func KanjiRunes() []rune { return kanjiRunes }

// SJIS encodes text to Shift_JIS (x/text).
func SJIS(s string) ([]byte, error) {
	return japanese.ShiftJIS.NewEncoder().Bytes([]byte(s))
}

// Payload builds a deterministic text of n characters for a mode from rng.
// kind: 0 random, 1 lowest symbol repeated, 2 highest symbol repeated.
func Payload(mode, n int, rng *hx.Rng, kind int) string {
	var sb strings.Builder
	pick := func(k int) int {
		switch kind {
		case 1:
			return 0
		case 2:
			return k - 1
		}
		return rng.Intn(k)
	}
	for i := 0; i < n; i++ {
		switch mode {
		case qrref.Numeric:
			sb.WriteByte(byte('0' + pick(10)))
		case qrref.Alnum:
			c := AlnumChars[pick(45)]
			if i == 0 && c >= '0' && c <= '9' {
				c = 'A' // make sure the text is not all digits
			}
			sb.WriteByte(c)
		case qrref.Byte:
			c := byte(0x21 + pick(0x5e))
			if i == 0 {
				c = 'a' // forces byte mode
			}
			sb.WriteByte(c)
		case qrref.Kanji:
			sb.WriteRune(kanjiRunes[pick(len(kanjiRunes))])
		}
	}
	return sb.String()
}
