package onedref

import "testing"

func TestSelf(t *testing.T) {
	if err := Code128SelfCheck(); err != nil {
		t.Fatal(err)
	}
	if err := Code93SelfCheck(); err != nil {
		t.Fatal(err)
	}
	if CheckDigit("400638133393") != 1 || CheckDigit("03600029145") != 2 {
		t.Fatal("check digit anchors")
	}
	if ExpandUPCE("0425261") != "04210000526" { // UPC-E 04252614 <-> UPC-A 042100005264
		t.Fatal("expand anchor", ExpandUPCE("0425261"))
	}
	if s, ok := SuppressUPCA("04210000526"); !ok || s != "0425261" {
		t.Fatal("suppress anchor", s, ok)
	}
}
