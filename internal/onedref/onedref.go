// Package onedref holds independent 1-D material typed from the standards:
// UPC/EAN symbol construction (incl. EAN-2 / EAN-5 add-ons), mod-10 check
// digit, UPC-E zero suppression / expansion, Code 128 and Code 93 tables and
// checksums. It shares no table with the library under test.
package onedref

import (
	"fmt"
	"strings"
)

// L-code widths as module strings (0 = space, 1 = bar), digits 0..9.
var lCodes = [10]string{"0001101", "0011001", "0010011", "0111101", "0100011", "0110001", "0101111", "0111011", "0110111", "0001011"}

func lCode(d int) string { return lCodes[d] }

func rCode(d int) string {
	b := []byte(lCodes[d])
	for i := range b {
		b[i] ^= 1
	}
	return string(b)
}

func gCode(d int) string {
	r := []byte(rCode(d))
	for i, j := 0, len(r)-1; i < j; i, j = i+1, j-1 {
		r[i], r[j] = r[j], r[i]
	}
	return string(r)
}

// EAN-13 first digit parities (L/G for the six left digits).
var ean13Parity = [10]string{"LLLLLL", "LLGLGG", "LLGGLG", "LLGGGL", "LGLLGG", "LGGLLG", "LGGGLL", "LGLGLG", "LGLGGL", "LGGLGL"}

// UPC-E parities for number system 0 by check digit (number system 1: complemented).
var upceParity0 = [10]string{"GGGLLL", "GGLGLL", "GGLLGL", "GGLLLG", "GLGGLL", "GLLGGL", "GLLLGG", "GLGLGL", "GLGLLG", "GLLGLG"}

// EAN-5 add-on parities by checksum.
var ean5Parity = [10]string{"GGLLL", "GLGLL", "GLLGL", "GLLLG", "LGGLL", "LLGGL", "LLLGG", "LGLGL", "LGLLG", "LLGLG"}

// EAN-2 parities by value mod 4.
var ean2Parity = [4]string{"LL", "LG", "GL", "GG"}

func digits(s string) ([]int, error) {
	out := make([]int, len(s))
	for i := 0; i < len(s); i++ {
		if s[i] < '0' || s[i] > '9' {
			return nil, fmt.Errorf("not a digit: %q", s[i])
		}
		out[i] = int(s[i] - '0')
	}
	return out, nil
}

// CheckDigit computes the mod-10 check digit (weights 3/1 from the right) for
// the digits given without check digit.
func CheckDigit(s string) int {
	sum := 0
	for i := 0; i < len(s); i++ {
		d := int(s[len(s)-1-i] - '0')
		if i%2 == 0 {
			sum += 3 * d
		} else {
			sum += d
		}
	}
	return (10 - sum%10) % 10
}

// ValidCheck reports whether the last digit is the check digit of the rest.
func ValidCheck(s string) bool {
	return len(s) >= 2 && CheckDigit(s[:len(s)-1]) == int(s[len(s)-1]-'0')
}

// ExpandUPCE expands number system + 6 payload digits (7 chars, no check) to
// the 11-digit UPC-A number without check digit.
func ExpandUPCE(e string) string {
	ns, d := e[0:1], e[1:7]
	switch d[5] {
	case '0', '1', '2':
		return ns + d[0:2] + d[5:6] + "0000" + d[2:5]
	case '3':
		return ns + d[0:3] + "00000" + d[3:5]
	case '4':
		return ns + d[0:4] + "00000" + d[4:5]
	default:
		return ns + d[0:5] + "0000" + d[5:6]
	}
}

// SuppressUPCA applies zero suppression to an 11-digit UPC-A number (number
// system 0 or 1, no check digit); ok=false if it is not zero-suppressible.
func SuppressUPCA(a string) (string, bool) {
	if len(a) != 11 || (a[0] != '0' && a[0] != '1') {
		return "", false
	}
	m, p := a[1:6], a[6:11] // manufacturer, product
	switch {
	case (m[2] == '0' || m[2] == '1' || m[2] == '2') && m[3:5] == "00" && p[0:2] == "00":
		return a[0:1] + m[0:2] + p[2:5] + m[2:3], true
	case m[3:5] == "00" && p[0:3] == "000":
		return a[0:1] + m[0:3] + p[3:5] + "3", true
	case m[4] == '0' && p[0:4] == "0000":
		return a[0:1] + m[0:4] + p[4:5] + "4", true
	case p[0:4] == "0000" && p[4] >= '5':
		return a[0:1] + m[0:5] + p[4:5], true
	}
	return "", false
}

// Guard patterns.
const (
	guardNormal  = "101"
	guardCentre  = "01010"
	guardUPCEEnd = "010101"
)

// EAN13Modules builds the 95 modules of an EAN-13 symbol from 13 digits (the
// 13th is encoded as given: it need not be a valid check digit).
func EAN13Modules(s string) (string, error) {
	d, err := digits(s)
	if err != nil || len(d) != 13 {
		return "", fmt.Errorf("EAN-13 needs 13 digits")
	}
	var sb strings.Builder
	sb.WriteString(guardNormal)
	par := ean13Parity[d[0]]
	for i := 1; i <= 6; i++ {
		if par[i-1] == 'L' {
			sb.WriteString(lCode(d[i]))
		} else {
			sb.WriteString(gCode(d[i]))
		}
	}
	sb.WriteString(guardCentre)
	for i := 7; i <= 12; i++ {
		sb.WriteString(rCode(d[i]))
	}
	sb.WriteString(guardNormal)
	return sb.String(), nil
}

// EAN8Modules builds the 67 modules of an EAN-8 symbol from 8 digits.
func EAN8Modules(s string) (string, error) {
	d, err := digits(s)
	if err != nil || len(d) != 8 {
		return "", fmt.Errorf("EAN-8 needs 8 digits")
	}
	var sb strings.Builder
	sb.WriteString(guardNormal)
	for i := 0; i < 4; i++ {
		sb.WriteString(lCode(d[i]))
	}
	sb.WriteString(guardCentre)
	for i := 4; i < 8; i++ {
		sb.WriteString(rCode(d[i]))
	}
	sb.WriteString(guardNormal)
	return sb.String(), nil
}

// UPCEModules builds the 51 modules of a UPC-E symbol: number system ns (0/1),
// six payload digits and the check digit that the parity pattern carries.
func UPCEModules(ns int, payload string, check int) (string, error) {
	d, err := digits(payload)
	if err != nil || len(d) != 6 || ns < 0 || ns > 1 || check < 0 || check > 9 {
		return "", fmt.Errorf("UPC-E needs number system 0/1, 6 digits, a check digit")
	}
	par := upceParity0[check]
	var sb strings.Builder
	sb.WriteString(guardNormal)
	for i := 0; i < 6; i++ {
		g := par[i] == 'G'
		if ns == 1 {
			g = !g
		}
		if g {
			sb.WriteString(gCode(d[i]))
		} else {
			sb.WriteString(lCode(d[i]))
		}
	}
	sb.WriteString(guardUPCEEnd)
	return sb.String(), nil
}

// AddOn2Modules builds an EAN-2 add-on for the two digits using the parity of
// parityValue mod 4 (the valid symbol has parityValue == the two-digit value).
func AddOn2Modules(two string, parityValue int) (string, error) {
	d, err := digits(two)
	if err != nil || len(d) != 2 {
		return "", fmt.Errorf("EAN-2 needs 2 digits")
	}
	par := ean2Parity[parityValue%4]
	var sb strings.Builder
	sb.WriteString("1011")
	for i := 0; i < 2; i++ {
		if i > 0 {
			sb.WriteString("01")
		}
		if par[i] == 'L' {
			sb.WriteString(lCode(d[i]))
		} else {
			sb.WriteString(gCode(d[i]))
		}
	}
	return sb.String(), nil
}

// EAN5Checksum is (3*(d1+d3+d5) + 9*(d2+d4)) mod 10.
func EAN5Checksum(five string) int {
	s := 0
	for i := 0; i < 5; i++ {
		d := int(five[i] - '0')
		if i%2 == 0 {
			s += 3 * d
		} else {
			s += 9 * d
		}
	}
	return s % 10
}

// AddOn5Modules builds an EAN-5 add-on for five digits using the parity
// pattern of checksum value parityCheck (valid: EAN5Checksum(five)).
func AddOn5Modules(five string, parityCheck int) (string, error) {
	d, err := digits(five)
	if err != nil || len(d) != 5 {
		return "", fmt.Errorf("EAN-5 needs 5 digits")
	}
	return AddOn5ModulesPattern(five, ean5Parity[parityCheck])
}

// AddOn5ModulesPattern builds an EAN-5 add-on with an explicit L/G pattern.
func AddOn5ModulesPattern(five, par string) (string, error) {
	d, err := digits(five)
	if err != nil || len(d) != 5 || len(par) != 5 {
		return "", fmt.Errorf("EAN-5 needs 5 digits and 5 parities")
	}
	var sb strings.Builder
	sb.WriteString("1011")
	for i := 0; i < 5; i++ {
		if i > 0 {
			sb.WriteString("01")
		}
		if par[i] == 'L' {
			sb.WriteString(lCode(d[i]))
		} else {
			sb.WriteString(gCode(d[i]))
		}
	}
	return sb.String(), nil
}

// EAN5ParityOf returns the check value whose parity pattern equals par, or -1.
func EAN5ParityOf(par string) int {
	for i, p := range ean5Parity {
		if p == par {
			return i
		}
	}
	return -1
}

// ------------------------------------------------------------ Code 128

// Code128Widths: bar/space widths of symbol values 0..105 (6 elements, 11
// modules) and the stop pattern 106 (7 elements, 13 modules); ISO/IEC 15417.
var Code128Widths = [107]string{
	"212222", "222122", "222221", "121223", "121322", "131222", "122213", "122312", "132212", "221213",
	"221312", "231212", "112232", "122132", "122231", "113222", "123122", "123221", "223211", "221132",
	"221231", "213212", "223112", "312131", "311222", "321122", "321221", "312212", "322112", "322211",
	"212123", "212321", "232121", "111323", "131123", "131321", "112313", "132113", "132311", "211313",
	"231113", "231311", "112133", "112331", "132131", "113123", "113321", "133121", "313121", "211331",
	"231131", "213113", "213311", "213131", "311123", "311321", "331121", "312113", "312311", "332111",
	"314111", "221411", "431111", "111224", "111422", "121124", "121421", "141122", "141221", "112214",
	"112412", "122114", "122411", "142112", "142211", "241211", "221114", "413111", "241112", "134111",
	"111242", "121142", "121241", "114212", "124112", "124211", "411212", "421112", "421211", "212141",
	"214121", "412121", "111143", "111341", "131141", "114113", "114311", "411113", "411311", "113141",
	"114131", "311141", "411131", "211412", "211214", "211232", "2331112",
}

// Code128SelfCheck verifies the structural laws of the typed table.
func Code128SelfCheck() error {
	seen := map[string]bool{}
	for v, w := range Code128Widths {
		sum, bars := 0, 0
		for i := 0; i < len(w); i++ {
			sum += int(w[i] - '0')
			if i%2 == 0 {
				bars += int(w[i] - '0')
			}
		}
		want, n := 11, 6
		if v == 106 {
			want, n = 13, 7
		}
		if len(w) != n || sum != want {
			return fmt.Errorf("code128 value %d: %q has %d elements / %d modules", v, w, len(w), sum)
		}
		if v < 106 && bars%2 != 0 {
			return fmt.Errorf("code128 value %d: odd bar module count", v)
		}
		if seen[w] {
			return fmt.Errorf("code128 value %d: duplicate pattern %q", v, w)
		}
		seen[w] = true
	}
	return nil
}

func widthsToModules(w string) string {
	var sb strings.Builder
	for i := 0; i < len(w); i++ {
		c := byte('1')
		if i%2 == 1 {
			c = '0'
		}
		for k := 0; k < int(w[i]-'0'); k++ {
			sb.WriteByte(c)
		}
	}
	return sb.String()
}

// Code128Modules renders a value sequence (start .. check, stop appended).
func Code128Modules(values []int) string {
	var sb strings.Builder
	for _, v := range values {
		sb.WriteString(widthsToModules(Code128Widths[v]))
	}
	sb.WriteString(widthsToModules(Code128Widths[106]))
	return sb.String()
}

// Code128Parse splits a module string (no quiet zone) into symbol values
// (start .. check), verifying the stop pattern; err if any pattern is unknown.
func Code128Parse(mod string) ([]int, error) {
	rev := map[string]int{}
	for v := 0; v < 106; v++ {
		rev[widthsToModules(Code128Widths[v])] = v
	}
	stop := widthsToModules(Code128Widths[106])
	if len(mod) < 13 || (len(mod)-13)%11 != 0 || mod[len(mod)-13:] != stop {
		return nil, fmt.Errorf("not a code 128 module string (length %d)", len(mod))
	}
	var out []int
	for i := 0; i+11 <= len(mod)-13; i += 11 {
		v, ok := rev[mod[i:i+11]]
		if !ok {
			return nil, fmt.Errorf("unknown code 128 pattern %s at module %d", mod[i:i+11], i)
		}
		out = append(out, v)
	}
	return out, nil
}

// Code128Check computes (start + sum i*v_i) mod 103 over start + data values.
func Code128Check(values []int) int {
	sum := values[0]
	for i := 1; i < len(values); i++ {
		sum += i * values[i]
	}
	return sum % 103
}

// ------------------------------------------------------------- Code 93

// Code93Alphabet: value -> character; values 43..46 are the shift characters
// ($) (%) (/) (+), 47 is start/stop.
const Code93Alphabet = "0123456789ABCDEFGHIJKLMNOPQRSTUVWXYZ-. $/+%abcd*"

// Code93Patterns: 9-module patterns (MSB first) of values 0..47 (USS Code 93).
var Code93Patterns = [48]int{
	0x114, 0x148, 0x144, 0x142, 0x128, 0x124, 0x122, 0x150, 0x112, 0x10A,
	0x1A8, 0x1A4, 0x1A2, 0x194, 0x192, 0x18A, 0x168, 0x164, 0x162, 0x134,
	0x11A, 0x158, 0x14C, 0x146, 0x12C, 0x116, 0x1B4, 0x1B2, 0x1AC, 0x1A6,
	0x196, 0x19A, 0x16C, 0x166, 0x136, 0x13A,
	0x12E, 0x1D4, 0x1D2, 0x1CA, 0x16E, 0x176, 0x1AE,
	0x126, 0x1DA, 0x1D6, 0x132, 0x15E,
}

// Code93SelfCheck verifies the structural laws: 9 modules, starts with a bar,
// ends with a space, exactly three bars and three spaces, all distinct.
func Code93SelfCheck() error {
	seen := map[int]bool{}
	for v, p := range Code93Patterns {
		if p>>8 != 1 || p&1 != 0 || p >= 0x200 {
			return fmt.Errorf("code93 value %d: pattern %#x must start with a bar and end with a space", v, p)
		}
		runs := 1
		for i := 7; i >= 0; i-- {
			if (p>>uint(i))&1 != (p>>uint(i+1))&1 {
				runs++
			}
		}
		if runs != 6 {
			return fmt.Errorf("code93 value %d: pattern %#x has %d runs", v, p, runs)
		}
		if seen[p] {
			return fmt.Errorf("code93 value %d: duplicate pattern", v)
		}
		seen[p] = true
	}
	return nil
}

func code93Bits(p int) string {
	var sb strings.Builder
	for i := 8; i >= 0; i-- {
		sb.WriteByte(byte('0' + (p>>uint(i))&1))
	}
	return sb.String()
}

// Code93Modules renders values (data + C + K) between start/stop with the termination bar.
func Code93Modules(values []int) string {
	var sb strings.Builder
	sb.WriteString(code93Bits(Code93Patterns[47]))
	for _, v := range values {
		sb.WriteString(code93Bits(Code93Patterns[v]))
	}
	sb.WriteString(code93Bits(Code93Patterns[47]))
	sb.WriteByte('1')
	return sb.String()
}

// Code93Parse splits a module string into the values between start and stop.
func Code93Parse(mod string) ([]int, error) {
	rev := map[string]int{}
	for v, p := range Code93Patterns {
		rev[code93Bits(p)] = v
	}
	if len(mod) < 19 || (len(mod)-1)%9 != 0 || mod[len(mod)-1] != '1' {
		return nil, fmt.Errorf("not a code 93 module string (length %d)", len(mod))
	}
	var out []int
	for i := 0; i+9 <= len(mod)-1; i += 9 {
		v, ok := rev[mod[i:i+9]]
		if !ok {
			return nil, fmt.Errorf("unknown code 93 pattern %s at module %d", mod[i:i+9], i)
		}
		out = append(out, v)
	}
	if out[0] != 47 || out[len(out)-1] != 47 {
		return nil, fmt.Errorf("code 93 start/stop missing")
	}
	return out[1 : len(out)-1], nil
}

// Code93Checks returns the C and K check values for the data values.
func Code93Checks(data []int) (c, k int) {
	w := func(vals []int, max int) int {
		s := 0
		for i := 0; i < len(vals); i++ {
			weight := i%max + 1
			s += weight * vals[len(vals)-1-i]
		}
		return s % 47
	}
	c = w(data, 20)
	k = w(append(append([]int(nil), data...), c), 15)
	return
}
