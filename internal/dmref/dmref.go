// Package dmref is an independent construction of Data Matrix ECC 200 symbols
// from ISO/IEC 16022: symbol attribute table, Reed-Solomon parity over
// GF(256)/0x12D, Annex F module placement, finder / clock tracks, and the
// 253- / 255-state randomising rules. It shares no table with the library.
package dmref

import "verif/internal/gfref"

// Attr is one row of the ECC 200 symbol attribute table (ISO 16022 table 7).
type Attr struct {
	Rows, Cols int // symbol size in modules
	RegH, RegV int // number of data regions across / down
	RH, RW     int // data region size in modules (rows x cols)
	Data, EC   int // total data / error codewords
	Blocks     int // interleaved RS blocks
}

// Sizes lists the 24 square and 6 rectangular symbols.
var Sizes = []Attr{
	{10, 10, 1, 1, 8, 8, 3, 5, 1},
	{12, 12, 1, 1, 10, 10, 5, 7, 1},
	{14, 14, 1, 1, 12, 12, 8, 10, 1},
	{16, 16, 1, 1, 14, 14, 12, 12, 1},
	{18, 18, 1, 1, 16, 16, 18, 14, 1},
	{20, 20, 1, 1, 18, 18, 22, 18, 1},
	{22, 22, 1, 1, 20, 20, 30, 20, 1},
	{24, 24, 1, 1, 22, 22, 36, 24, 1},
	{26, 26, 1, 1, 24, 24, 44, 28, 1},
	{32, 32, 2, 2, 14, 14, 62, 36, 1},
	{36, 36, 2, 2, 16, 16, 86, 42, 1},
	{40, 40, 2, 2, 18, 18, 114, 48, 1},
	{44, 44, 2, 2, 20, 20, 144, 56, 1},
	{48, 48, 2, 2, 22, 22, 174, 68, 1},
	{52, 52, 2, 2, 24, 24, 204, 84, 2},
	{64, 64, 4, 4, 14, 14, 280, 112, 2},
	{72, 72, 4, 4, 16, 16, 368, 144, 4},
	{80, 80, 4, 4, 18, 18, 456, 192, 4},
	{88, 88, 4, 4, 20, 20, 576, 224, 4},
	{96, 96, 4, 4, 22, 22, 696, 272, 4},
	{104, 104, 4, 4, 24, 24, 816, 336, 6},
	{120, 120, 6, 6, 18, 18, 1050, 408, 6},
	{132, 132, 6, 6, 20, 20, 1304, 496, 8},
	{144, 144, 6, 6, 22, 22, 1558, 620, 10},
	{8, 18, 1, 1, 6, 16, 5, 7, 1},
	{8, 32, 2, 1, 6, 14, 10, 11, 1},
	{12, 26, 1, 1, 10, 24, 16, 14, 1},
	{12, 36, 2, 1, 10, 16, 22, 18, 1},
	{16, 36, 2, 1, 14, 16, 32, 24, 1},
	{16, 48, 2, 1, 14, 22, 49, 28, 1},
}

func (a Attr) Rect() bool      { return a.Rows != a.Cols }
func (a Attr) MapRows() int    { return a.RegV * a.RH }
func (a Attr) MapCols() int    { return a.RegH * a.RW }
func (a Attr) ECPerBlock() int { return a.EC / a.Blocks }

// BlockData returns the number of data codewords of block b (0-based).
func (a Attr) BlockData(b int) int {
	n := a.Data / a.Blocks
	if b < a.Data%a.Blocks {
		n++
	}
	return n
}

// SelfCheck verifies the table identity cells/8 == data+ec; returns the index
// of the first bad row or -1.
func SelfCheck() int {
	for i, a := range Sizes {
		if a.MapRows()*a.MapCols()/8 != a.Data+a.EC || a.Rows != a.RegV*(a.RH+2) || a.Cols != a.RegH*(a.RW+2) || a.EC%a.Blocks != 0 {
			return i
		}
	}
	return -1
}

// CapacityOrder returns the indices of Sizes in the standard's capacity order
// (ascending data capacity; on a tie the square symbol first... the only ties
// are 12x12/8x18 (5) and 20x20/12x36 (22)).
func CapacityOrder() []int {
	idx := make([]int, len(Sizes))
	for i := range idx {
		idx[i] = i
	}
	// stable insertion sort by (Data, rect)
	for i := 1; i < len(idx); i++ {
		for j := i; j > 0; j-- {
			a, b := Sizes[idx[j-1]], Sizes[idx[j]]
			if a.Data > b.Data || (a.Data == b.Data && a.Rect() && !b.Rect()) {
				idx[j-1], idx[j] = idx[j], idx[j-1]
			} else {
				break
			}
		}
	}
	return idx
}

// ECPos returns the position, within the EC area, of parity symbol j of block b.
func (a Attr) ECPos(b, j int) int {
	if a.Rows == 144 {
		// 144x144: the parity of blocks 1-8 follows that of blocks 9-10
		if b < 8 {
			return (b + 2) + j*10
		}
		return (b - 8) + j*10
	}
	return b + j*a.Blocks
}

// ECC returns data followed by the interleaved parity codewords.
func ECC(data []byte, a Attr) []byte {
	out := make([]byte, a.Data+a.EC)
	copy(out, data)
	r := a.ECPerBlock()
	for b := 0; b < a.Blocks; b++ {
		var blk []int
		for i := b; i < a.Data; i += a.Blocks {
			blk = append(blk, int(data[i]))
		}
		par := gfref.DM256.Parity(blk, r)
		for j := 0; j < r; j++ {
			out[a.Data+a.ECPos(b, j)] = byte(par[j])
		}
	}
	return out
}

// BlockPos tells which RS block a codeword of the full stream belongs to.
type BlockPos struct {
	Block int
	IsEC  bool
}

// BlockOf returns the block of every codeword position (data + ec).
func BlockOf(a Attr) []BlockPos {
	out := make([]BlockPos, a.Data+a.EC)
	for i := 0; i < a.Data; i++ {
		out[i] = BlockPos{i % a.Blocks, false}
	}
	for b := 0; b < a.Blocks; b++ {
		for j := 0; j < a.ECPerBlock(); j++ {
			out[a.Data+a.ECPos(b, j)] = BlockPos{b, true}
		}
	}
	return out
}

// Generator returns the coefficients of prod_{i=1..n}(x - 2^i), highest degree first.
func Generator(n int) []int { return gfref.DM256.Generator(n) }

// ------------------------------------------------------------- placement

type placer struct {
	nrow, ncol int
	arr        []int // 10*chr + bit (bit 1 = MSB .. 8 = LSB); 1 = fixed dark; 0 = unset; -1 fixed light
}

func (p *placer) module(row, col, chr, bit int) {
	if row < 0 {
		row += p.nrow
		col += 4 - ((p.nrow + 4) % 8)
	}
	if col < 0 {
		col += p.ncol
		row += 4 - ((p.ncol + 4) % 8)
	}
	p.arr[row*p.ncol+col] = 10*chr + bit
}

func (p *placer) utah(row, col, chr int) {
	p.module(row-2, col-2, chr, 1)
	p.module(row-2, col-1, chr, 2)
	p.module(row-1, col-2, chr, 3)
	p.module(row-1, col-1, chr, 4)
	p.module(row-1, col, chr, 5)
	p.module(row, col-2, chr, 6)
	p.module(row, col-1, chr, 7)
	p.module(row, col, chr, 8)
}

func (p *placer) corner1(chr int) {
	p.module(p.nrow-1, 0, chr, 1)
	p.module(p.nrow-1, 1, chr, 2)
	p.module(p.nrow-1, 2, chr, 3)
	p.module(0, p.ncol-2, chr, 4)
	p.module(0, p.ncol-1, chr, 5)
	p.module(1, p.ncol-1, chr, 6)
	p.module(2, p.ncol-1, chr, 7)
	p.module(3, p.ncol-1, chr, 8)
}

func (p *placer) corner2(chr int) {
	p.module(p.nrow-3, 0, chr, 1)
	p.module(p.nrow-2, 0, chr, 2)
	p.module(p.nrow-1, 0, chr, 3)
	p.module(0, p.ncol-4, chr, 4)
	p.module(0, p.ncol-3, chr, 5)
	p.module(0, p.ncol-2, chr, 6)
	p.module(0, p.ncol-1, chr, 7)
	p.module(1, p.ncol-1, chr, 8)
}

func (p *placer) corner3(chr int) {
	p.module(p.nrow-3, 0, chr, 1)
	p.module(p.nrow-2, 0, chr, 2)
	p.module(p.nrow-1, 0, chr, 3)
	p.module(0, p.ncol-2, chr, 4)
	p.module(0, p.ncol-1, chr, 5)
	p.module(1, p.ncol-1, chr, 6)
	p.module(2, p.ncol-1, chr, 7)
	p.module(3, p.ncol-1, chr, 8)
}

func (p *placer) corner4(chr int) {
	p.module(p.nrow-1, 0, chr, 1)
	p.module(p.nrow-1, p.ncol-1, chr, 2)
	p.module(0, p.ncol-3, chr, 3)
	p.module(0, p.ncol-2, chr, 4)
	p.module(0, p.ncol-1, chr, 5)
	p.module(1, p.ncol-3, chr, 6)
	p.module(1, p.ncol-2, chr, 7)
	p.module(1, p.ncol-1, chr, 8)
}

// Placement runs the Annex F algorithm for an nrow x ncol mapping matrix.
// Cell value: 10*chr+bit with chr 1-based and bit 1 (MSB) .. 8 (LSB);
// 1 = fixed dark, -1 = fixed light (unused lower-right corner).
// It also reports which corner cases were used.
func Placement(nrow, ncol int) (arr []int, corners [5]bool) {
	p := &placer{nrow: nrow, ncol: ncol, arr: make([]int, nrow*ncol)}
	chr, row, col := 1, 4, 0
	for {
		if row == nrow && col == 0 {
			p.corner1(chr)
			chr++
			corners[1] = true
		}
		if row == nrow-2 && col == 0 && ncol%4 != 0 {
			p.corner2(chr)
			chr++
			corners[2] = true
		}
		if row == nrow-2 && col == 0 && ncol%8 == 4 {
			p.corner3(chr)
			chr++
			corners[3] = true
		}
		if row == nrow+4 && col == 2 && ncol%8 == 0 {
			p.corner4(chr)
			chr++
			corners[4] = true
		}
		for {
			if row < nrow && col >= 0 && p.arr[row*ncol+col] == 0 {
				p.utah(row, col, chr)
				chr++
			}
			row -= 2
			col += 2
			if !(row >= 0 && col < ncol) {
				break
			}
		}
		row++
		col += 3
		for {
			if row >= 0 && col < ncol && p.arr[row*ncol+col] == 0 {
				p.utah(row, col, chr)
				chr++
			}
			row += 2
			col -= 2
			if !(row < nrow && col >= 0) {
				break
			}
		}
		row += 3
		col++
		if !(row < nrow || col < ncol) {
			break
		}
	}
	if p.arr[nrow*ncol-1] == 0 {
		p.arr[nrow*ncol-1] = 1
		p.arr[nrow*ncol-ncol-2] = 1
		p.arr[nrow*ncol-2] = -1
		p.arr[nrow*ncol-ncol-1] = -1
	}
	return p.arr, corners
}

// MappingMatrix returns the data-cell matrix [row][col] for the codewords.
func MappingMatrix(codewords []byte, nrow, ncol int) [][]bool {
	arr, _ := Placement(nrow, ncol)
	m := make([][]bool, nrow)
	for r := range m {
		m[r] = make([]bool, ncol)
		for c := range m[r] {
			v := arr[r*ncol+c]
			switch {
			case v == 1:
				m[r][c] = true
			case v >= 10:
				chr, bit := v/10, v%10
				m[r][c] = (codewords[chr-1]>>uint(8-bit))&1 == 1
			}
		}
	}
	return m
}

// symbolCell maps a symbol module (R, C) to (kind, mapRow, mapCol):
// kind 0 = data cell, 1 = dark function module, 2 = light function module.
func (a Attr) symbolCell(R, C int) (kind, mr, mc int) {
	i, r := R/(a.RH+2), R%(a.RH+2)
	j, c := C/(a.RW+2), C%(a.RW+2)
	switch {
	case c == 0, r == a.RH+1:
		return 1, 0, 0 // solid left / bottom line
	case r == 0:
		if c%2 == 0 {
			return 1, 0, 0
		}
		return 2, 0, 0
	case c == a.RW+1:
		if r%2 == 1 {
			return 1, 0, 0
		}
		return 2, 0, 0
	}
	return 0, i*a.RH + r - 1, j*a.RW + c - 1
}

// BuildSymbol builds the full module matrix [row][col] from data+ec codewords.
func BuildSymbol(codewords []byte, a Attr) [][]bool {
	mm := MappingMatrix(codewords, a.MapRows(), a.MapCols())
	out := make([][]bool, a.Rows)
	for R := range out {
		out[R] = make([]bool, a.Cols)
		for C := range out[R] {
			k, mr, mc := a.symbolCell(R, C)
			switch k {
			case 0:
				out[R][C] = mm[mr][mc]
			case 1:
				out[R][C] = true
			}
		}
	}
	return out
}

// CodewordModules returns, for each codeword (0-based, data+ec), the symbol
// coordinates (x = column, y = row) of its 8 bits, MSB first.
func CodewordModules(a Attr) [][8][2]int {
	arr, _ := Placement(a.MapRows(), a.MapCols())
	out := make([][8][2]int, a.Data+a.EC)
	for R := 0; R < a.Rows; R++ {
		for C := 0; C < a.Cols; C++ {
			k, mr, mc := a.symbolCell(R, C)
			if k != 0 {
				continue
			}
			v := arr[mr*a.MapCols()+mc]
			if v >= 10 {
				out[v/10-1][v%10-1] = [2]int{C, R}
			}
		}
	}
	return out
}

// Randomize253 returns the pad codeword for 1-based codeword position p.
func Randomize253(p int) int {
	v := 129 + ((149*p)%253 + 1)
	if v > 254 {
		v -= 254
	}
	return v
}

// Randomize255 returns the randomised Base-256 codeword of value val at
// 1-based codeword position p.
func Randomize255(val, p int) int {
	v := val + ((149*p)%255 + 1)
	if v > 255 {
		v -= 256
	}
	return v
}

// Unrandomize255 is the inverse of Randomize255.
func Unrandomize255(v, p int) int {
	t := v - ((149*p)%255 + 1)
	if t < 0 {
		t += 256
	}
	return t
}
