// C10: check digits and checksums are computed, demanded and enforced.
package c10

import (
	"encoding/json"
	"fmt"
	"strings"
	"testing"

	"github.com/makiuchi-d/gozxing"
	"github.com/makiuchi-d/gozxing/oned"
	"pgregory.net/rapid"

	"verif/internal/hx"
	"verif/internal/onedref"
	"verif/internal/onedx"
)

// ---------------------------------------------------------- UPC/EAN substitution

// SubstCase: a well-formed symbol carrying Digits (which need not verify).
type SubstCase struct {
	Sym    string `json:"sym"`    // EAN13 | EAN8 | UPCA | UPCE
	Digits string `json:"digits"` // full number incl. check digit (UPC-E: ns + 6 + check)
	Scale  int    `json:"scale"`
	Multi  bool   `json:"multi"`
}

func modulesFor(sym, digits string) (string, error) {
	switch sym {
	case "EAN13":
		return onedref.EAN13Modules(digits)
	case "UPCA":
		return onedref.EAN13Modules("0" + digits)
	case "EAN8":
		return onedref.EAN8Modules(digits)
	case "UPCE":
		return onedref.UPCEModules(int(digits[0]-'0'), digits[1:7], int(digits[7]-'0'))
	}
	return "", fmt.Errorf("hx: symbology %q", sym)
}

func validNumber(sym, digits string) bool {
	if sym == "UPCE" {
		return onedref.CheckDigit(onedref.ExpandUPCE(digits[:7])) == int(digits[7]-'0')
	}
	return onedref.ValidCheck(digits)
}

func readers(sym string) (gozxing.Reader, gozxing.BarcodeFormat) {
	s := onedx.SymByName(sym)
	return s.Reader(), s.Format
}

func checkSubst(raw json.RawMessage) error {
	var c SubstCase
	if err := json.Unmarshal(raw, &c); err != nil {
		return fmt.Errorf("hx: %v", err)
	}
	rd, format := readers(c.Sym)
	if c.Multi {
		rd = oned.NewMultiFormatUPCEANReader(map[gozxing.DecodeHintType]interface{}{gozxing.DecodeHintType_POSSIBLE_FORMATS: []gozxing.BarcodeFormat{format}})
	}
	return evalSubst(rd, c)
}

// SubstHistory: a sequence of reads on ONE reader instance; the symbols of one history share
// their data digits and differ in the check digit they carry (valid and invalid ones in any
// order), or are unrelated numbers. Each verdict must be that of a fresh reader.
type SubstHistory struct {
	Sym   string      `json:"sym"`
	Multi bool        `json:"multi"`
	Steps []SubstCase `json:"steps"`
}

func checkSubstHistory(raw json.RawMessage) error {
	var h SubstHistory
	if err := json.Unmarshal(raw, &h); err != nil {
		return fmt.Errorf("hx: %v", err)
	}
	rd, format := readers(h.Sym)
	if h.Multi {
		rd = oned.NewMultiFormatUPCEANReader(map[gozxing.DecodeHintType]interface{}{gozxing.DecodeHintType_POSSIBLE_FORMATS: []gozxing.BarcodeFormat{format}})
	}
	var hints map[gozxing.DecodeHintType]interface{}
	if h.Multi {
		hints = map[gozxing.DecodeHintType]interface{}{gozxing.DecodeHintType_POSSIBLE_FORMATS: []gozxing.BarcodeFormat{format}}
	}
	for i, st := range h.Steps {
		mod, err := modulesFor(h.Sym, st.Digits)
		if err != nil {
			return fmt.Errorf("hx: %v", err)
		}
		img := onedx.Render(mod, 12, 12, st.Scale, 8)
		// what a fresh reader makes of this picture (its absolute correctness is the business of the
		// substitution sub-checks) ...
		fresh, _ := readers(h.Sym)
		if h.Multi {
			fresh = oned.NewMultiFormatUPCEANReader(hints)
		}
		b1, _ := gozxing.NewBinaryBitmapFromImage(img)
		fr, ferr := fresh.Decode(b1, hints)
		// ... is what the reused reader must make of it
		b2, _ := gozxing.NewBinaryBitmapFromImage(img)
		rr, rerr := rd.Decode(b2, hints)
		desc := fmt.Sprintf("step %d of %d on one %s reader (multi=%v): symbol carrying %s (checksum verifies: %v), scale %d; earlier steps %v", i+1, len(h.Steps), h.Sym, h.Multi, st.Digits, validNumber(h.Sym, st.Digits), st.Scale, h.Steps[:i])
		if (ferr == nil) != (rerr == nil) {
			return fmt.Errorf("fresh reader: %v / %v, reused reader: %v / %v [%s]", textOf(fr), ferr, textOf(rr), rerr, desc)
		}
		if ferr == nil && (fr.GetText() != rr.GetText() || fr.GetBarcodeFormat() != rr.GetBarcodeFormat()) {
			return fmt.Errorf("fresh reader read %q, reused reader read %q [%s]", fr.GetText(), rr.GetText(), desc)
		}
	}
	return nil
}

func textOf(r *gozxing.Result) string {
	if r == nil {
		return "-"
	}
	return r.GetText()
}

func evalSubst(rd gozxing.Reader, c SubstCase) error {
	mod, err := modulesFor(c.Sym, c.Digits)
	if err != nil {
		return fmt.Errorf("hx: %v", err)
	}
	img := onedx.Render(mod, 12, 12, c.Scale, 8)
	bmp, _ := gozxing.NewBinaryBitmapFromImage(img)
	_, format := readers(c.Sym)
	var res *gozxing.Result
	if c.Multi {
		h := map[gozxing.DecodeHintType]interface{}{gozxing.DecodeHintType_POSSIBLE_FORMATS: []gozxing.BarcodeFormat{format}}
		res, err = rd.Decode(bmp, h)
	} else {
		res, err = rd.Decode(bmp, nil)
	}
	valid := validNumber(c.Sym, c.Digits)
	desc := fmt.Sprintf("%s symbol carrying %s (checksum %v), scale %d, multi=%v", c.Sym, c.Digits, map[bool]string{true: "verifies", false: "does NOT verify"}[valid], c.Scale, c.Multi)
	if !valid {
		if err == nil {
			return fmt.Errorf("reader returned %q (%v) for a symbol whose check digit does not verify [%s]", res.GetText(), res.GetBarcodeFormat(), desc)
		}
		return nil
	}
	if err != nil {
		return fmt.Errorf("reader rejected a valid independently constructed symbol: %v [%s]", err, desc)
	}
	if res.GetText() != c.Digits || res.GetBarcodeFormat() != format {
		return fmt.Errorf("reader returned %q (%v) [%s]", res.GetText(), res.GetBarcodeFormat(), desc)
	}
	return nil
}

type SymSubstCase struct {
	Sym   string `json:"sym"` // CODE128 | CODE93
	Text  string `json:"text"`
	Pos   int    `json:"pos"`   // index into the value sequence (Code 128: 1.. incl. check; Code 93: 0.. incl. C and K); -1 = none
	Value int    `json:"value"` // replacement value
	Scale int    `json:"scale"`
}

func writerModules(sym, text string) (string, error) {
	s := onedx.SymByName(sym)
	bm, err := s.Writer().Encode(text, s.Format, 0, 1, nil)
	if err != nil {
		return "", err
	}
	return strings.Trim(onedx.ModulesOf(bm), "0"), nil
}

func checkSymSubst(raw json.RawMessage) error {
	var c SymSubstCase
	if err := json.Unmarshal(raw, &c); err != nil {
		return fmt.Errorf("hx: %v", err)
	}
	mod, err := writerModules(c.Sym, c.Text)
	if err != nil {
		return fmt.Errorf("hx: writer: %v", err)
	}
	var vals []int
	var render func([]int) string
	if c.Sym == "CODE128" {
		vals, err = onedref.Code128Parse(mod)
		if err != nil {
			return fmt.Errorf("writer output is not a sequence of ISO 15417 patterns: %v [text %q]", err, c.Text)
		}
		n := len(vals)
		if want := onedref.Code128Check(vals[:n-1]); vals[n-1] != want {
			return fmt.Errorf("Code 128 writer check symbol is %d, mod-103 formula gives %d [text %q, values %v]", vals[n-1], want, c.Text, vals)
		}
		render = onedref.Code128Modules
	} else {
		vals, err = onedref.Code93Parse(mod)
		if err != nil {
			return fmt.Errorf("writer output is not a sequence of Code 93 patterns: %v [text %q]", err, c.Text)
		}
		n := len(vals)
		if n < 3 {
			return fmt.Errorf("Code 93 writer output too short [text %q]", c.Text)
		}
		wc, wk := onedref.Code93Checks(vals[:n-2])
		if vals[n-2] != wc || vals[n-1] != wk {
			return fmt.Errorf("Code 93 writer check characters are C=%d K=%d, mod-47 formulae give C=%d K=%d [text %q, values %v]", vals[n-2], vals[n-1], wc, wk, c.Text, vals)
		}
		render = onedref.Code93Modules
	}
	s := onedx.SymByName(c.Sym)
	read := func(v []int) (*gozxing.Result, error) {
		img := onedx.Render(render(v), 12, 12, c.Scale, 8)
		bmp, _ := gozxing.NewBinaryBitmapFromImage(img)
		return s.Reader().Decode(bmp, nil)
	}
	if c.Pos < 0 {
		res, err := read(vals)
		if err != nil || res.GetText() != c.Text {
			return fmt.Errorf("unmodified symbol re-rendered from the reference tables read as %v, %v [text %q]", res, err, c.Text)
		}
		return nil
	}
	if c.Pos >= len(vals) || vals[c.Pos] == c.Value {
		return fmt.Errorf("hx: bad substitution")
	}
	mut := append([]int(nil), vals...)
	mut[c.Pos] = c.Value
	res, err := read(mut)
	if err == nil {
		return fmt.Errorf("%s reader returned %q for a symbol with symbol character %d replaced (%d -> %d), whose checksum does not verify [text %q, values %v]", c.Sym, res.GetText(), c.Pos, vals[c.Pos], c.Value, c.Text, vals)
	}
	return nil
}

// -------------------------------------------------------------- writers refuse

type RefuseCase struct {
	Sym    string `json:"sym"`
	Digits string `json:"digits"` // full number with a (possibly wrong) check digit
}

func checkRefuse(raw json.RawMessage) error {
	var c RefuseCase
	if err := json.Unmarshal(raw, &c); err != nil {
		return fmt.Errorf("hx: %v", err)
	}
	s := onedx.SymByName(c.Sym)
	_, err := s.Writer().Encode(c.Digits, s.Format, 0, 0, map[gozxing.EncodeHintType]interface{}{gozxing.EncodeHintType_MARGIN: 13})
	valid := validNumber(c.Sym, c.Digits)
	if valid && err != nil {
		return fmt.Errorf("%s writer refused %s although its check digit verifies: %v", c.Sym, c.Digits, err)
	}
	if !valid && err == nil {
		return fmt.Errorf("%s writer accepted %s although its check digit does not verify", c.Sym, c.Digits)
	}
	return nil
}

// ----------------------------------------------------------- UPC-E expansion

type ExpandCase struct {
	E string `json:"e"` // number system + 6 digits
}

func checkExpand(raw json.RawMessage) error {
	var c ExpandCase
	if err := json.Unmarshal(raw, &c); err != nil {
		return fmt.Errorf("hx: %v", err)
	}
	n := onedref.ExpandUPCE(c.E) // a zero-suppressible UPC-A number (11 digits)
	s, ok := onedref.SuppressUPCA(n)
	if !ok {
		return fmt.Errorf("hx: reference suppression failed for %s", n)
	}
	if onedref.ExpandUPCE(s) != n {
		return fmt.Errorf("hx: reference expand(suppress(%s)) = %s", n, onedref.ExpandUPCE(s))
	}
	if got := oned.VerifConvertUPCEtoUPCA(s); got != n {
		return fmt.Errorf("expansion of UPC-E %s gives %s, but %s is the zero-suppressed form of %s", s, got, s, n)
	}
	if got := oned.VerifConvertUPCEtoUPCA(c.E); got != n {
		return fmt.Errorf("expansion of UPC-E %s gives %s, standard rules give %s", c.E, got, n)
	}
	chk := onedref.CheckDigit(n)
	if got := oned.VerifConvertUPCEtoUPCA(s + string(rune('0'+chk))); got != n+string(rune('0'+chk)) {
		return fmt.Errorf("expansion of UPC-E %s%d (with check digit) gives %s", s, chk, got)
	}
	return nil
}

// ---------------------------------------------------------------- add-ons

type AddOnCase struct {
	Main    string `json:"main"`   // 13 digits (valid)
	Digits  string `json:"digits"` // 2 or 5 digits
	Parity  string `json:"parity"` // L/G pattern actually used
	Allowed []int  `json:"allowed,omitempty"`
	Scale   int    `json:"scale"`
}

func checkAddOn(raw json.RawMessage) error {
	var c AddOnCase
	if err := json.Unmarshal(raw, &c); err != nil {
		return fmt.Errorf("hx: %v", err)
	}
	return evalAddOn(oned.NewEAN13Reader(), c)
}

// AddOnHistory is a sequence of add-on reads made with ONE reader instance: the verdict
// on each symbol must be what a fresh reader gives, whatever was read (or refused) before.
type AddOnHistory struct {
	Reader string      `json:"reader"` // EAN13 | MULTI_UPC_EAN
	Steps  []AddOnCase `json:"steps"`
}

func checkAddOnHistory(raw json.RawMessage) error {
	var h AddOnHistory
	if err := json.Unmarshal(raw, &h); err != nil {
		return fmt.Errorf("hx: %v", err)
	}
	var r gozxing.Reader
	switch h.Reader {
	case "MULTI_UPC_EAN":
		r = oned.NewMultiFormatUPCEANReader(map[gozxing.DecodeHintType]interface{}{
			gozxing.DecodeHintType_POSSIBLE_FORMATS: []gozxing.BarcodeFormat{gozxing.BarcodeFormat_EAN_13}})
	default:
		r = oned.NewEAN13Reader()
	}
	for i, st := range h.Steps {
		if err := evalAddOn(r, st); err != nil {
			if strings.HasPrefix(err.Error(), "hx:") {
				return err
			}
			return fmt.Errorf("step %d of %d on one %s reader: %v", i+1, len(h.Steps), h.Reader, err)
		}
	}
	return nil
}

func evalAddOn(reader gozxing.Reader, c AddOnCase) error {
	main, err := onedref.EAN13Modules(c.Main)
	if err != nil || !onedref.ValidCheck(c.Main) {
		return fmt.Errorf("hx: main symbol")
	}
	var add string
	var goodParity string
	if len(c.Digits) == 2 {
		v := int(c.Digits[0]-'0')*10 + int(c.Digits[1]-'0')
		goodParity = []string{"LL", "LG", "GL", "GG"}[v%4]
		pv := map[string]int{"LL": 0, "LG": 1, "GL": 2, "GG": 3}[c.Parity]
		add, err = onedref.AddOn2Modules(c.Digits, pv)
	} else {
		add, err = onedref.AddOn5ModulesPattern(c.Digits, c.Parity)
		if k := onedref.EAN5Checksum(c.Digits); true {
			p, _ := onedref.AddOn5Modules(c.Digits, k)
			ref, _ := onedref.AddOn5ModulesPattern(c.Digits, c.Parity)
			if p == ref {
				goodParity = c.Parity
			}
		}
	}
	if err != nil {
		return fmt.Errorf("hx: add-on: %v", err)
	}
	valid := goodParity == c.Parity
	img := onedx.Render(main+strings.Repeat("0", 9)+add, 12, 12, c.Scale, 8)
	bmp, _ := gozxing.NewBinaryBitmapFromImage(img)
	var hints map[gozxing.DecodeHintType]interface{}
	if c.Allowed != nil {
		hints = map[gozxing.DecodeHintType]interface{}{gozxing.DecodeHintType_ALLOWED_EAN_EXTENSIONS: c.Allowed}
	}
	res, err := reader.Decode(bmp, hints)
	desc := fmt.Sprintf("EAN-13 %s + %d-digit add-on %s with parity %s (valid=%v), allowed=%v, scale %d", c.Main, len(c.Digits), c.Digits, c.Parity, valid, c.Allowed, c.Scale)
	allowedHas := func(n int) bool {
		for _, a := range c.Allowed {
			if a == n {
				return true
			}
		}
		return false
	}
	if valid {
		if c.Allowed != nil && !allowedHas(len(c.Digits)) {
			if err == nil {
				return fmt.Errorf("read succeeded although the add-on length is not in ALLOWED_EAN_EXTENSIONS [%s]", desc)
			}
			return nil
		}
		if err != nil {
			return fmt.Errorf("valid symbol with add-on rejected: %v [%s]", err, desc)
		}
		ext, _ := res.GetResultMetadata()[gozxing.ResultMetadataType_UPC_EAN_EXTENSION].(string)
		if res.GetText() != c.Main || ext != c.Digits {
			return fmt.Errorf("read %q with extension %q [%s]", res.GetText(), ext, desc)
		}
		return nil
	}
	// add-on whose parity does not encode its check value: never reported as that add-on
	if err != nil {
		return nil // rejecting the whole read is fine
	}
	ext, has := res.GetResultMetadata()[gozxing.ResultMetadataType_UPC_EAN_EXTENSION].(string)
	if res.GetText() != c.Main {
		return fmt.Errorf("main symbol read as %q [%s]", res.GetText(), desc)
	}
	if has && ext == c.Digits {
		return fmt.Errorf("add-on %s accepted although its parity pattern %s does not encode its check value [%s]", c.Digits, c.Parity, desc)
	}
	if has && len(ext) == 5 {
		return fmt.Errorf("a different 5-digit add-on %q was reported [%s]", ext, desc)
	}
	if has && len(ext) == 2 {
		// a 5-digit add-on begins like a 2-digit one: acceptable only if that prefix is itself parity-consistent
		if len(c.Digits) != 5 || ext != c.Digits[:2] {
			return fmt.Errorf("2-digit extension %q reported [%s]", ext, desc)
		}
		v := int(ext[0]-'0')*10 + int(ext[1]-'0')
		if c.Parity[:2] != []string{"LL", "LG", "GL", "GG"}[v%4] {
			return fmt.Errorf("2-digit extension %q reported although the parity of its two digits (%s) does not encode %d mod 4 [%s]", ext, c.Parity[:2], v, desc)
		}
	}
	if c.Allowed != nil {
		n := 0
		if has {
			n = len(ext)
		}
		if !allowedHas(n) {
			return fmt.Errorf("read succeeded with a %d-digit extension although ALLOWED_EAN_EXTENSIONS=%v [%s]", n, c.Allowed, desc)
		}
	}
	return nil
}

// ---------------------------------------------------------------------------

func randNumber(sym string, rng *hx.Rng) string {
	d := func(n int) string {
		b := make([]byte, n)
		for i := range b {
			b[i] = byte('0' + rng.Intn(10))
		}
		return string(b)
	}
	switch sym {
	case "EAN13":
		s := d(12)
		return s + string(rune('0'+onedref.CheckDigit(s)))
	case "UPCA":
		s := d(11)
		return s + string(rune('0'+onedref.CheckDigit(s)))
	case "EAN8":
		s := d(7)
		return s + string(rune('0'+onedref.CheckDigit(s)))
	default:
		s := string(rune('0'+rng.Intn(2))) + d(6)
		return s + string(rune('0'+onedref.CheckDigit(onedref.ExpandUPCE(s))))
	}
}

func TestCheck(t *testing.T) {
	hx.Main(t, "C10", func(c *hx.Ctx) {
		c.Register("subst", checkSubst)
		c.Register("symsubst", checkSymSubst)
		c.Register("refuse", checkRefuse)
		c.Register("expand", checkExpand)
		c.Register("addon", checkAddOn)
		c.Register("addon_history", checkAddOnHistory)
		c.Register("subst_history", checkSubstHistory)
		// known finding: an upside-down UPC-E symbol can itself decode as a different, valid UPC-E number
		c.RegisterMatcher("upce-upside-down-misread", func(raw json.RawMessage, err error) bool {
			var cs SubstCase
			if json.Unmarshal(raw, &cs) != nil || cs.Sym != "UPCE" || validNumber(cs.Sym, cs.Digits) {
				return false
			}
			mod, e := modulesFor(cs.Sym, cs.Digits)
			if e != nil {
				return false
			}
			b := []byte(mod)
			for i, j := 0, len(b)-1; i < j; i, j = i+1, j-1 {
				b[i], b[j] = b[j], b[i]
			}
			// read the reversed module row alone (no reversed retry possible: a plain row decode)
			img := onedx.Render(string(b), 12, 12, cs.Scale, 1)
			row := img.GetRow(0, nil)
			rd := oned.NewUPCEReader().(interface {
				DecodeRow(int, *gozxing.BitArray, map[gozxing.DecodeHintType]interface{}) (*gozxing.Result, error)
			})
			res, e := rd.DecodeRow(0, row, nil)
			if e != nil || res.GetText() == cs.Digits {
				return false
			}
			return strings.Contains(err.Error(), fmt.Sprintf("reader returned %q", res.GetText()))
		})
	}, func(c *hx.Ctx) {
		if err := onedref.Code128SelfCheck(); err != nil {
			c.Inconclusive(err.Error())
			return
		}
		if err := onedref.Code93SelfCheck(); err != nil {
			c.Inconclusive(err.Error())
			return
		}
		// (c) every single-digit substitution of UPC/EAN numbers
		substAll := func(sub, sym string, number string, scale int, multi bool) bool {
			// the valid original first (positive control), then all 9*len substitutions
			cs := SubstCase{Sym: sym, Digits: number, Scale: scale, Multi: multi}
			c.NoteBulk(sub, "sym="+sym+";original", 1, 0, func() any { return cs })
			if !c.Enum(sub, "subst", cs, nil) {
				return false
			}
			for i := 0; i < len(number); i++ {
				for d := byte('0'); d <= '9'; d++ {
					if number[i] == d || (sym == "UPCE" && i == 0 && d > '1') {
						continue
					}
					b := []byte(number)
					b[i] = d
					m := SubstCase{Sym: sym, Digits: string(b), Scale: scale, Multi: multi}
					cl := "invalid"
					if validNumber(sym, m.Digits) {
						cl = "still_valid"
					}
					c.Note(sub, "sym="+sym+";"+cl, true, hx.HashS(sub, sym, m.Digits, fmt.Sprint(scale, multi)), func() any { return m })
					if !c.Enum(sub, "subst", m, nil) {
						return false
					}
				}
			}
			return true
		}
		idx := 0
		for _, sym := range []string{"EAN13", "UPCA", "EAN8", "UPCE"} {
			rng := hx.NewRng(c.Seed("subst-"+sym, 0))
			for k := 0; k < c.N(40, 600); k++ {
				idx++
				n := randNumber(sym, rng)
				if !c.Mine(idx) {
					continue
				}
				if !substAll("upcean_substitutions", sym, n, 1+k%3, k%4 == 3) {
					break
				}
			}
		}
		// UPC-E / EAN-8 number spaces: strided (quick) or complete (thorough) enumeration of the numbers
		enumSpace := func(sub, sym string, total, quickCount int) {
			stride := 1
			if !c.Thorough() {
				stride = total / quickCount
			} else {
				stride = total / c.N(quickCount, 60000) // thorough: 60000 numbers x 54/72 substitutions per space and shard set
			}
			off := int(c.Seed(sub, 1) % uint64(stride))
			k := 0
			for i := off; i < total; i += stride {
				k++
				if !c.Mine(k) {
					continue
				}
				d := fmt.Sprintf("%07d", i)
				var n string
				if sym == "UPCE" {
					n = d + string(rune('0'+onedref.CheckDigit(onedref.ExpandUPCE(d))))
				} else {
					n = d + string(rune('0'+onedref.CheckDigit(d)))
				}
				if !substAll(sub, sym, n, 1, false) {
					break
				}
			}
			c.SetExhaustive(sub, false)
		}
		enumSpace("upce_space_substitutions", "UPCE", 2_000_000, 300)
		enumSpace("ean8_space_substitutions", "EAN8", 10_000_000, 300)

		// (a') the extremes of the weighted digit sum: every number made of the digits {9, 8} and of
		// {9, 0} only (the sum reaches its maximum for all nines): the writers must accept exactly the
		// reference check digit, and the readers must accept exactly the reference symbol
		{
			eidx := 0
			for _, sym := range []string{"EAN13", "UPCA", "EAN8", "UPCE"} {
				n := map[string]int{"EAN13": 12, "UPCA": 11, "EAN8": 7, "UPCE": 7}[sym]
				for _, lo := range []byte{'8', '0'} {
					for bits := 0; bits < 1<<uint(n); bits++ {
						eidx++
						if !c.Mine(eidx) {
							continue
						}
						if n == 12 && bits%c.N(8, 1) != 0 && bits != (1<<12)-1 && bits != 0 {
							continue // EAN-13: every 8th pattern in the quick tier (all 4096 in thorough)
						}
						d := make([]byte, n)
						for i := range d {
							d[i] = '9'
							if bits&(1<<uint(i)) != 0 {
								d[i] = lo
							}
						}
						if sym == "UPCE" {
							d[0] = '0' + d[0]%2 // number system 0 / 1
						}
						body := string(d)
						good := onedref.CheckDigit(body)
						if sym == "UPCE" {
							good = onedref.CheckDigit(onedref.ExpandUPCE(body))
						}
						for _, ck := range []int{good, (good + 6) % 10, (good + 1) % 10} {
							full := body + string(rune('0'+ck))
							rc := RefuseCase{Sym: sym, Digits: full}
							c.Note("check_digit_extreme_sums", "sym="+sym, true, hx.HashS("ext", sym, full), func() any { return rc })
							if !c.Enum("check_digit_extreme_sums", "refuse", rc, nil) {
								break
							}
							if _, err := modulesFor(sym, full); err == nil {
								sc := SubstCase{Sym: sym, Digits: full, Scale: 1}
								if !c.Enum("check_digit_extreme_sums", "subst", sc, nil) {
									break
								}
							}
						}
					}
				}
			}
			c.SetExhaustive("check_digit_extreme_sums", c.Thorough())
		}

		// (b) writers refuse every wrong check digit
		idx = 0
		for _, sym := range []string{"EAN13", "UPCA", "EAN8", "UPCE"} {
			rng := hx.NewRng(c.Seed("refuse-"+sym, 0))
			for k := 0; k < c.N(60, 2000); k++ {
				n := randNumber(sym, rng)
				idx++
				if !c.Mine(idx) {
					continue
				}
				for d := byte('0'); d <= '9'; d++ {
					cs := RefuseCase{Sym: sym, Digits: n[:len(n)-1] + string(d)}
					c.Note("writers_refuse_wrong_check", "sym="+sym, d != n[len(n)-1], hx.HashS("refuse", sym, cs.Digits), func() any { return cs })
					if !c.Enum("writers_refuse_wrong_check", "refuse", cs, nil) {
						break
					}
				}
			}
		}

		// (d) UPC-E expansion is the inverse of zero suppression
		{
			stride := c.N(97, 1)
			var n int64
			for i := int(c.P.Seed) % stride; i < 2_000_000; i += stride {
				if !c.Mine(i / stride) {
					continue
				}
				cs := ExpandCase{E: fmt.Sprintf("%07d", i)}
				raw, _ := json.Marshal(cs)
				hx.JournalCase("expand", raw)
				if err := hx.Safe(func() error { return checkExpand(raw) }); err != nil {
					c.Enum("upce_expansion_all", "expand", cs, nil)
					break
				}
				n++
			}
			c.NoteBulk("upce_expansion_all", "", n, n, func() any { return ExpandCase{E: "0425261"} })
			c.SetExhaustive("upce_expansion_all", stride == 1)
		}

		// (a,c) Code 128 / Code 93: writer check characters by formula; every single-symbol substitution
		symSubst := func(sub, sym string, nvals int, per int) {
			c.Rapid(sub, per, func(t *rapid.T) {
				rng := hx.NewRng(rapid.Uint64().Draw(t, "content"))
				text, _, _ := onedx.Content(sym, rng)
				if len(text) > 24 {
					text = text[:24]
				}
				if sym == "CODE128" {
					// keep digit pairs intact after truncation
					text = strings.TrimRight(text, "")
				}
				cs := SymSubstCase{Sym: sym, Text: text, Pos: -1, Scale: rapid.IntRange(1, 3).Draw(t, "scale")}
				raw, _ := json.Marshal(cs)
				c.Note(sub, "original", false, hx.Hash(raw), func() any { return cs })
				if err := c.Eval("symsubst", cs); err != nil {
					t.Fatalf("%v", err)
				}
				// parse to learn the number of symbol characters, then substitute
				mod, err := writerModules(sym, text)
				if err != nil {
					t.Skip("writer refused")
				}
				var vals []int
				if sym == "CODE128" {
					vals, err = onedref.Code128Parse(mod)
				} else {
					vals, err = onedref.Code93Parse(mod)
				}
				if err != nil || len(vals) < 3 {
					return // already reported by the unmodified case
				}
				first := 0
				if sym == "CODE128" {
					first = 1 // keep the start character
				}
				npos := rapid.IntRange(1, 4).Draw(t, "npos")
				for k := 0; k < npos; k++ {
					pos := rapid.IntRange(first, len(vals)-1).Draw(t, "pos")
					// every other data value at that position
					for v := 0; v < nvals; v++ {
						if v == vals[pos] {
							continue
						}
						m := SymSubstCase{Sym: sym, Text: text, Pos: pos, Value: v, Scale: cs.Scale}
						cl := "data_symbol"
						if (sym == "CODE128" && pos == len(vals)-1) || (sym == "CODE93" && pos >= len(vals)-2) {
							cl = "check_symbol"
						}
						c.Note(sub, cl, true, hx.HashS(sub, text, fmt.Sprint(pos, v, cs.Scale)), func() any { return m })
						if err := c.Eval("symsubst", m); err != nil {
							t.Fatalf("%v", err)
						}
					}
				}
			})
		}
		symSubst("code128_substitutions", "CODE128", 103, c.N(60, 600))
		symSubst("code93_substitutions", "CODE93", 47, c.N(100, 1000))

		// (e) add-ons: EAN-2 all values x 4 parities; EAN-5 values x all 32 parity patterns
		pats5 := make([]string, 0, 32)
		for m := 0; m < 32; m++ {
			b := make([]byte, 5)
			for i := range b {
				if m&(1<<uint(4-i)) != 0 {
					b[i] = 'G'
				} else {
					b[i] = 'L'
				}
			}
			pats5 = append(pats5, string(b))
		}
		rng := hx.NewRng(c.Seed("addon", 0))
		mainN := randNumber("EAN13", rng)
		idx = 0
		for v := 0; v < 100; v++ {
			for _, par := range []string{"LL", "LG", "GL", "GG"} {
				for _, allowed := range [][]int{nil, {2}, {5}, {0, 2, 5}} {
					idx++
					if !c.Mine(idx) {
						continue
					}
					cs := AddOnCase{Main: mainN, Digits: fmt.Sprintf("%02d", v), Parity: par, Allowed: allowed, Scale: 1 + v%2}
					c.Note("ean2_addons_all", "parity="+par, true, hx.HashS("a2", fmt.Sprint(v, par, allowed)), func() any { return cs })
					c.Enum("ean2_addons_all", "addon", cs, nil)
				}
			}
		}
		c.SetExhaustive("ean2_addons_all", true)
		stride5 := c.N(50, 1)
		for v := int(c.P.Seed) % stride5; v < 100000; v += stride5 {
			idx++
			if !c.Mine(idx) {
				continue
			}
			digits := fmt.Sprintf("%05d", v)
			for pi, par := range pats5 {
				var allowed []int
				if (v+pi)%5 == 0 {
					allowed = []int{5}
				}
				cs := AddOnCase{Main: mainN, Digits: digits, Parity: par, Allowed: allowed, Scale: 1}
				cl := "wrong_parity"
				if onedref.EAN5ParityOf(par) == onedref.EAN5Checksum(digits) {
					cl = "matching_parity"
				} else if onedref.EAN5ParityOf(par) < 0 {
					cl = "no_such_parity_pattern"
				}
				c.Note("ean5_addons", cl, true, hx.HashS("a5", digits, par, fmt.Sprint(allowed)), func() any { return cs })
				if !c.Enum("ean5_addons", "addon", cs, nil) {
					break
				}
			}
		}
		c.SetExhaustive("ean5_addons", stride5 == 1)

		// (g) check-digit verdicts as a history on one reader instance
		c.Rapid("reader_instance_histories", c.N(300, 6000), func(t *rapid.T) {
			h := SubstHistory{Sym: rapid.SampledFrom([]string{"EAN13", "EAN8", "UPCA", "UPCE", "UPCE"}).Draw(t, "sym"), Multi: rapid.IntRange(0, 3).Draw(t, "multi") == 0}
			r := hx.NewRng(rapid.Uint64().Draw(t, "numseed"))
			base := randNumber(h.Sym, r)
			n := rapid.IntRange(2, 6).Draw(t, "steps")
			sawValid, sawInvalid, validAfterInvalid, invalidAfterValid := false, false, false, false
			for i := 0; i < n; i++ {
				digits := base
				switch rapid.IntRange(0, 3).Draw(t, "kind") {
				case 0: // the valid symbol
				case 1, 2: // same data digits, another check digit
					d := byte('0' + rapid.IntRange(0, 9).Draw(t, "check"))
					digits = base[:len(base)-1] + string(d)
				default: // an unrelated number
					digits = randNumber(h.Sym, hx.NewRng(rapid.Uint64().Draw(t, "other")))
				}
				if _, err := modulesFor(h.Sym, digits); err != nil {
					digits = base
				}
				if validNumber(h.Sym, digits) {
					if sawInvalid {
						validAfterInvalid = true
					}
					sawValid = true
				} else {
					if sawValid {
						invalidAfterValid = true
					}
					sawInvalid = true
				}
				h.Steps = append(h.Steps, SubstCase{Digits: digits, Scale: rapid.IntRange(1, 2).Draw(t, "scale")})
			}
			cl := "sym=" + h.Sym
			if validAfterInvalid {
				cl += ";valid_after_refused"
			}
			if invalidAfterValid {
				cl += ";wrong_check_after_valid"
			}
			c.Note("reader_instance_histories", cl, validAfterInvalid || invalidAfterValid, hx.HashS("sh", fmt.Sprint(h)), func() any { return h })
			if err := c.Eval("subst_history", h); err != nil {
				t.Fatalf("%v", err)
			}
		})

		// (f) add-on reads as a history on one reader instance (buffers are per reader)
		c.Rapid("addon_reader_histories", c.N(300, 6000), func(t *rapid.T) {
			h := AddOnHistory{Reader: rapid.SampledFrom([]string{"EAN13", "EAN13", "MULTI_UPC_EAN"}).Draw(t, "reader")}
			n := rapid.IntRange(2, 6).Draw(t, "steps")
			bad, goodAfterBad := false, false
			for i := 0; i < n; i++ {
				r := hx.NewRng(rapid.Uint64().Draw(t, "mainseed"))
				st := AddOnCase{Main: randNumber("EAN13", r), Scale: rapid.IntRange(1, 2).Draw(t, "scale")}
				five := rapid.Bool().Draw(t, "five")
				ok := rapid.Bool().Draw(t, "valid")
				if five {
					st.Digits = fmt.Sprintf("%05d", rapid.IntRange(0, 99999).Draw(t, "v5"))
					k := onedref.EAN5Checksum(st.Digits)
					st.Parity = ""
					for _, p := range pats5 {
						if onedref.EAN5ParityOf(p) == k {
							st.Parity = p
						}
					}
					if !ok {
						st.Parity = rapid.SampledFrom(pats5).Draw(t, "par5")
					}
				} else {
					v := rapid.IntRange(0, 99).Draw(t, "v2")
					st.Digits = fmt.Sprintf("%02d", v)
					st.Parity = []string{"LL", "LG", "GL", "GG"}[v%4]
					if !ok {
						st.Parity = rapid.SampledFrom([]string{"LL", "LG", "GL", "GG"}).Draw(t, "par2")
					}
				}
				if rapid.IntRange(0, 4).Draw(t, "hint") == 0 {
					st.Allowed = rapid.SampledFrom([][]int{{2}, {5}, {0, 2, 5}, {2, 5}}).Draw(t, "allowed")
				}
				good := (five && onedref.EAN5ParityOf(st.Parity) == onedref.EAN5Checksum(st.Digits)) ||
					(!five && st.Parity == []string{"LL", "LG", "GL", "GG"}[(int(st.Digits[0]-'0')*10+int(st.Digits[1]-'0'))%4])
				if !good {
					bad = true
				} else if bad {
					goodAfterBad = true
				}
				h.Steps = append(h.Steps, st)
			}
			cl := "all_valid"
			if goodAfterBad {
				cl = "valid_after_refused"
			} else if bad {
				cl = "refused_last_or_only_refused"
			}
			c.Note("addon_reader_histories", cl+"/"+h.Reader, goodAfterBad, hx.HashS("ah", fmt.Sprint(h)), func() any { return h })
			if err := c.Eval("addon_history", h); err != nil {
				t.Fatalf("%v", err)
			}
		})
	})
}
