// C20: 1-D run-length primitives obey their contract at every scale.
package c20

import (
	"encoding/json"
	"errors"
	"fmt"
	"math"
	"math/big"
	"sort"
	"strings"
	"testing"

	"github.com/makiuchi-d/gozxing"
	"github.com/makiuchi-d/gozxing/oned"
	"github.com/makiuchi-d/gozxing/oned/rss"
	"pgregory.net/rapid"

	"verif/internal/hx"
	"verif/internal/onedref"
)

// ------------------------------------------------------------ RecordPattern

type RCase struct {
	Row     string `json:"row"` // '1' = black
	Start   int    `json:"start"`
	N       int    `json:"n"`
	Reverse bool   `json:"reverse"`
}

func rowOf(s string) *gozxing.BitArray {
	a := gozxing.NewBitArray(len(s))
	for i := range s {
		if s[i] == '1' {
			a.Set(i)
		}
	}
	return a
}

// runs returns (start index, length) of all runs of the row.
func runs(s string) (starts, lens []int) {
	for i := 0; i < len(s); {
		j := i
		for j < len(s) && s[j] == s[i] {
			j++
		}
		starts = append(starts, i)
		lens = append(lens, j-i)
		i = j
	}
	return
}

func isNotFound(err error) bool {
	var nf gozxing.NotFoundException
	return errors.As(err, &nf)
}

func checkRecord(raw json.RawMessage) error {
	var c RCase
	if err := json.Unmarshal(raw, &c); err != nil {
		return fmt.Errorf("hx: %v", err)
	}
	row := rowOf(c.Row)
	counters := make([]int, c.N)
	for i := range counters {
		counters[i] = 7 + i // stale content must not leak into the result
	}
	starts, lens := runs(c.Row)
	var want []int
	if !c.Reverse {
		// forward: the successive runs beginning at Start (first one possibly partial)
		if c.Start < len(c.Row) {
			k := sort.Search(len(starts), func(i int) bool { return starts[i] > c.Start }) - 1
			rest := []int{starts[k] + lens[k] - c.Start}
			rest = append(rest, lens[k+1:]...)
			if len(rest) >= c.N {
				want = rest[:c.N]
			}
		}
		err := oned.RecordPattern(row, c.Start, counters)
		return compareRecord("RecordPattern", err, counters, want)
	}
	// reverse: the N complete runs immediately left of the run containing Start;
	// the leftmost of them must itself be bounded by a further run.
	k := sort.Search(len(starts), func(i int) bool { return starts[i] > c.Start }) - 1
	if k >= c.N+1 {
		want = append([]int(nil), lens[k-c.N:k]...)
	}
	err := oned.RecordPatternInReverse(row, c.Start, counters)
	return compareRecord("RecordPatternInReverse", err, counters, want)
}

func compareRecord(name string, err error, got, want []int) error {
	if want == nil {
		if err == nil {
			return fmt.Errorf("%s succeeded with %v, model: row ends first (NotFound expected)", name, got)
		}
		if !isNotFound(err) {
			return fmt.Errorf("%s error is not a NotFoundException: %v", name, err)
		}
		return nil
	}
	if err != nil {
		return fmt.Errorf("%s failed (%v), model %v", name, err, want)
	}
	for i := range want {
		if got[i] != want[i] {
			return fmt.Errorf("%s = %v, model %v", name, got, want)
		}
	}
	return nil
}

func genRow(t *rapid.T) string {
	n := rapid.IntRange(0, 300).Draw(t, "len")
	if rapid.IntRange(0, 3).Draw(t, "short") == 0 {
		n = rapid.IntRange(0, 12).Draw(t, "len2")
	}
	b := make([]byte, n)
	kind := rapid.IntRange(0, 3).Draw(t, "kind")
	cur := byte('0' + rapid.IntRange(0, 1).Draw(t, "first"))
	for i := 0; i < n; {
		var l int
		switch kind {
		case 0:
			l = 1 // strictly alternating
		case 1:
			l = rapid.IntRange(1, 4).Draw(t, "run")
		case 2:
			l = rapid.IntRange(1, 60).Draw(t, "run")
		default:
			l = rapid.IntRange(1, 12).Draw(t, "run")
		}
		for j := 0; j < l && i < n; j++ {
			b[i] = cur
			i++
		}
		cur ^= 1
	}
	return string(b)
}

// ------------------------------------------------------ PatternMatchVariance

type VCase struct {
	Counters []int   `json:"counters"`
	Pattern  []int   `json:"pattern"`
	MaxInd   float64 `json:"max_individual"`
}

// refScore computes the contract in exact rationals. ok=false when a counter's
// deviation is (numerically) on the individual-variance boundary.
func refScore(c, p []int, maxInd float64) (score *big.Rat, inf bool, ok bool) {
	total, plen := 0, 0
	for i := range c {
		total += c[i]
		plen += p[i]
	}
	if total < plen {
		return nil, true, true
	}
	u := big.NewRat(int64(total), int64(plen))
	lim := new(big.Rat).SetFloat64(maxInd)
	lim.Mul(lim, u)
	sum := new(big.Rat)
	tol := new(big.Rat).Mul(lim, big.NewRat(1, 1_000_000_000))
	if tol.Sign() == 0 {
		tol = big.NewRat(1, 1_000_000_000)
	}
	// When the unit width and the limit are dyadic rationals with small exponents, every intermediate
	// value of any evaluation order is exactly representable in float64, so the comparison on the
	// boundary itself is decisive: "deviates by more than the allowed variance" is false at equality.
	dyadic := func(r *big.Rat) bool {
		d := r.Denom()
		return d.BitLen() <= 20 && new(big.Int).And(d, new(big.Int).Sub(d, big.NewInt(1))).Sign() == 0
	}
	exactArith := dyadic(u) && dyadic(new(big.Rat).SetFloat64(maxInd))
	isInf := false
	for i := range c {
		v := new(big.Rat).Mul(big.NewRat(int64(p[i]), 1), u)
		v.Sub(big.NewRat(int64(c[i]), 1), v)
		v.Abs(v)
		d := new(big.Rat).Sub(v, lim)
		if new(big.Rat).Abs(d).Cmp(tol) <= 0 && !(exactArith && d.Sign() == 0) {
			return nil, false, false
		}
		if d.Sign() > 0 {
			isInf = true
		}
		sum.Add(sum, v)
	}
	if isInf {
		return nil, true, true
	}
	return sum.Quo(sum, big.NewRat(int64(total), 1)), false, true
}

func checkVariance(raw json.RawMessage) error {
	var c VCase
	if err := json.Unmarshal(raw, &c); err != nil {
		return fmt.Errorf("hx: %v", err)
	}
	got := oned.PatternMatchVariance(append([]int(nil), c.Counters...), append([]int(nil), c.Pattern...), c.MaxInd)
	want, inf, ok := refScore(c.Counters, c.Pattern, c.MaxInd)
	if !ok {
		return nil
	}
	if inf {
		if !math.IsInf(got, 1) {
			return fmt.Errorf("PatternMatchVariance(%v, %v, %v) = %v, contract: +Inf", c.Counters, c.Pattern, c.MaxInd, got)
		}
		return nil
	}
	wf, _ := want.Float64()
	if math.IsInf(got, 0) || math.IsNaN(got) || math.Abs(got-wf) > 1e-9 {
		return fmt.Errorf("PatternMatchVariance(%v, %v, %v) = %v, contract: %v", c.Counters, c.Pattern, c.MaxInd, got, wf)
	}
	// exact multiple scores zero
	total, plen := 0, 0
	for i := range c.Counters {
		total += c.Counters[i]
		plen += c.Pattern[i]
	}
	// scale invariance
	for k := 2; k <= 8; k++ {
		sc := make([]int, len(c.Counters))
		for i := range sc {
			sc[i] = k * c.Counters[i]
		}
		g2 := oned.PatternMatchVariance(sc, append([]int(nil), c.Pattern...), c.MaxInd)
		if math.Abs(g2-got) > 1e-12 {
			return fmt.Errorf("scale invariance: score(%v)=%v but score(%d x)=%v (pattern %v, limit %v)", c.Counters, got, k, g2, c.Pattern, c.MaxInd)
		}
	}
	return nil
}

func classify(c VCase) (class string, nontrivial bool) {
	total, plen := 0, 0
	for i := range c.Counters {
		total += c.Counters[i]
		plen += c.Pattern[i]
	}
	if total < plen {
		return "under_resolved", false
	}
	_, inf, ok := refScore(c.Counters, c.Pattern, c.MaxInd)
	if !ok {
		return "boundary_skipped", false
	}
	if inf {
		return "inf_individual", true
	}
	if onBoundary(c) {
		return "exactly_on_limit", true
	}
	exact := total%plen == 0
	if exact {
		k := total / plen
		for i := range c.Counters {
			if c.Counters[i] != k*c.Pattern[i] {
				exact = false
			}
		}
	}
	if exact {
		return "exact_multiple", false
	}
	return "finite_inexact", true
}

// onBoundary reports whether some run deviates by exactly the allowed individual variance.
func onBoundary(c VCase) bool {
	total, plen := 0, 0
	for i := range c.Counters {
		total += c.Counters[i]
		plen += c.Pattern[i]
	}
	if total < plen || plen == 0 {
		return false
	}
	u := big.NewRat(int64(total), int64(plen))
	lim := new(big.Rat).SetFloat64(c.MaxInd)
	lim.Mul(lim, u)
	for i := range c.Counters {
		v := new(big.Rat).Mul(big.NewRat(int64(c.Pattern[i]), 1), u)
		v.Sub(big.NewRat(int64(c.Counters[i]), 1), v)
		if v.Abs(v).Cmp(lim) == 0 {
			return true
		}
	}
	return false
}

// BCase: one call of a best-match decoder (the symbol whose template scores lowest, if that
// score is below the decoder's maximum average variance; otherwise not found).
type BCase struct {
	Decoder  string `json:"decoder"` // itf | code128 | upcean_l | upcean_l_and_g
	Counters []int  `json:"counters"`
	Offset   int    `json:"offset"`
	// Trail is the number of pixels after the last run; 0 = the symbol is flush with the row end
	// (RecordPattern then fills the last counter while running off the side, which is legitimate)
	Trail *int `json:"trail,omitempty"`
}

// intScore: the contract in integers. score = dev/(plen*total) with dev = sum |c_i*plen - p_i*total|;
// a run is out of tolerance when |c_i*plen - p_i*total| > maxInd*total. ok=false within 1e-6 of that boundary.
func intScore(c, p []int, maxInd float64) (dev, den int64, inf, ok bool) {
	var total, plen int64
	for i := range c {
		total += int64(c[i])
		plen += int64(p[i])
	}
	if total < plen {
		return 0, 1, true, true
	}
	lim := maxInd * float64(total)
	for i := range c {
		d := int64(c[i])*plen - int64(p[i])*total
		if d < 0 {
			d = -d
		}
		if math.Abs(float64(d)-lim) < 1e-6 {
			return 0, 1, false, false
		}
		if float64(d) > lim {
			inf = true
		}
		dev += d
	}
	return dev, plen * total, inf, true
}

type bestOutcome struct {
	skip  string // non-empty: the case is too close to a decision boundary to call
	found bool
	index int
	score float64
}

func bestRef(c []int, rows [][]int, maxAvg, maxInd float64) bestOutcome {
	best, bestI := math.Inf(1), -1
	second := math.Inf(1)
	for i, p := range rows {
		dev, den, inf, ok := intScore(c, p[:len(c)], maxInd)
		if !ok {
			return bestOutcome{skip: "individual_boundary"}
		}
		if inf {
			continue
		}
		sc := float64(dev) / float64(den)
		if sc < best {
			second = best
			best, bestI = sc, i
		} else if sc < second {
			second = sc
		}
	}
	if bestI < 0 {
		return bestOutcome{}
	}
	if math.Abs(best-maxAvg) < 1e-9 {
		return bestOutcome{skip: "average_boundary"}
	}
	if best >= maxAvg {
		return bestOutcome{}
	}
	if second-best < 1e-9 {
		return bestOutcome{skip: "tie"}
	}
	return bestOutcome{found: true, index: bestI, score: best}
}

// firstRef: the RSS finder lookup returns the FIRST template scoring below the limit (not the lowest).
func firstRef(c []int, rows [][]int, maxAvg, maxInd float64) bestOutcome {
	for i, p := range rows {
		dev, den, inf, ok := intScore(c, p[:len(c)], maxInd)
		if !ok {
			return bestOutcome{skip: "individual_boundary"}
		}
		if inf {
			continue
		}
		sc := float64(dev) / float64(den)
		if math.Abs(sc-maxAvg) < 1e-9 {
			return bestOutcome{skip: "average_boundary"}
		}
		if sc < maxAvg {
			return bestOutcome{found: true, index: i, score: sc}
		}
	}
	return bestOutcome{}
}

func bestTable(dec string) (rows [][]int, lim [2]float64, n int) {
	pt := oned.VerifPatternTables()
	ls := oned.VerifBestMatchLimits()
	switch dec {
	case "rss_finder":
		return rss.VerifFinderPatterns(), rss.VerifFinderLimits(), 4
	case "itf":
		return pt["itf"], ls["itf"], 5
	case "code128":
		return pt["code128"], ls["code128"], 6
	case "upcean_l":
		return pt["upcean_l"], ls["upcean"], 4
	default:
		return pt["upcean_l_and_g"], ls["upcean"], 4
	}
}

func checkBest(raw json.RawMessage) error {
	var c BCase
	if err := json.Unmarshal(raw, &c); err != nil {
		return fmt.Errorf("hx: %v", err)
	}
	rows, lim, n := bestTable(c.Decoder)
	if len(c.Counters) != n {
		return fmt.Errorf("hx: %s takes %d counters", c.Decoder, n)
	}
	for _, v := range c.Counters {
		if v < 1 {
			return fmt.Errorf("hx: runs are at least one pixel")
		}
	}
	want := bestRef(c.Counters, rows, lim[0], lim[1])
	if c.Decoder == "rss_finder" {
		want = firstRef(c.Counters, rows, lim[0], lim[1])
	}
	if want.skip != "" {
		return nil
	}
	var got int
	var err error
	if c.Decoder == "rss_finder" {
		got, err = rss.RSSReader_parseFinderValue(append([]int(nil), c.Counters...), rows)
	} else if c.Decoder == "itf" {
		got, err = oned.VerifITFDecodeDigit(append([]int(nil), c.Counters...))
		want.index %= 10
	} else {
		// a row whose runs from Offset are exactly the counters, followed by one more run
		var sb strings.Builder
		sb.WriteString(strings.Repeat("0", c.Offset))
		col := byte('1')
		for _, v := range c.Counters {
			sb.WriteString(strings.Repeat(string(col), v))
			col ^= 1
		}
		trail := 3
		if c.Trail != nil {
			trail = *c.Trail
		}
		sb.WriteString(strings.Repeat(string(col), trail))
		row := rowOf(sb.String())
		cnt := make([]int, n)
		for i := range cnt {
			cnt[i] = 77 // dirty: the decoder records the runs itself
		}
		if c.Decoder == "code128" {
			got, err = oned.VerifCode128DecodeCode(row, cnt, c.Offset)
		} else {
			got, err = oned.VerifUPCEANDecodeDigit(row, cnt, c.Offset, rows)
		}
	}
	desc := fmt.Sprintf("%s best-match decoder on runs %v (limits avg %v, individual %v)", c.Decoder, c.Counters, lim[0], lim[1])
	if c.Trail != nil {
		desc += fmt.Sprintf(", %d pixels after the last run", *c.Trail)
	}
	if !want.found {
		if err == nil {
			return fmt.Errorf("decoded %d although no template scores below the maximum average variance [%s]", got, desc)
		}
		if !isNotFound(err) {
			return fmt.Errorf("error is not NotFound: %v [%s]", err, desc)
		}
		return nil
	}
	if err != nil {
		return fmt.Errorf("not found although template %d scores %.6f, the unique lowest and below the limit: %v [%s]", want.index, want.score, err, desc)
	}
	if got != want.index {
		return fmt.Errorf("decoded %d, the lowest-scoring template is %d (score %.6f) [%s]", got, want.index, want.score, desc)
	}
	return nil
}

// StartCase: the Code 128 start-pattern search on a pixel row. Model: slide over windows of six runs
// that begin with a bar (a window counts once a seventh run has begun); the first window whose
// lowest-scoring start code (A, B, C) scores below the maximum average variance and that is
// preceded by white pixels for half its width is the answer {start, end, code}; otherwise not found.
type StartCase struct {
	Row string `json:"row"`
}

func checkStart(raw json.RawMessage) error {
	var c StartCase
	if err := json.Unmarshal(raw, &c); err != nil {
		return fmt.Errorf("hx: %v", err)
	}
	pt := oned.VerifPatternTables()["code128"]
	lim := oned.VerifBestMatchLimits()["code128"]
	starts, lens := runs(c.Row)
	// drop leading white run
	first := 0
	if len(c.Row) > 0 && c.Row[0] == '0' {
		first = 1
	}
	type ans struct {
		found            bool
		start, end, code int
	}
	want := ans{}
	for k := first; k+6 < len(lens); k += 2 {
		win := lens[k : k+6]
		o := bestRef(win, pt[103:106], lim[0], lim[1])
		if o.skip != "" {
			return nil // too close to a decision boundary to call
		}
		if !o.found {
			continue
		}
		ps := starts[k]
		end := starts[k+6]
		q := ps - (end-ps)/2
		if q < 0 {
			q = 0
		}
		white := true
		for x := q; x < ps; x++ {
			if c.Row[x] == '1' {
				white = false
			}
		}
		if white {
			want = ans{true, ps, end, 103 + o.index}
			break
		}
	}
	got, err := oned.VerifCode128FindStartPattern(rowOf(c.Row))
	desc := fmt.Sprintf("row %s", c.Row)
	if len(desc) > 400 {
		desc = desc[:400] + "..."
	}
	if !want.found {
		if err == nil {
			return fmt.Errorf("start pattern %v reported, the model finds none [%s]", got, desc)
		}
		if !isNotFound(err) {
			return fmt.Errorf("error is not NotFound: %v [%s]", err, desc)
		}
		return nil
	}
	if err != nil {
		return fmt.Errorf("no start pattern found, the model finds start code %d at [%d,%d) [%s]", want.code, want.start, want.end, desc)
	}
	if len(got) != 3 || got[0] != want.start || got[1] != want.end || got[2] != want.code {
		return fmt.Errorf("start pattern %v, the model finds {%d %d %d} [%s]", got, want.start, want.end, want.code, desc)
	}
	return nil
}

// DigitRow: a valid EAN-13 / EAN-8 symbol at some scale in which the three inner edges of ONE digit
// are moved by a few pixels (its outer edges, and so every other digit, stay put). If the lowest
// reference score over the templates that position may use (L and G in the left half of EAN-13, L
// otherwise) is still uniquely that digit's own template and below the limit, every digit of the
// symbol decodes to itself and the reader must return the number.
type DigitRow struct {
	Sym    string `json:"sym"` // EAN13 | EAN8
	Digits string `json:"digits"`
	Scale  int    `json:"scale"`
	Pos    int    `json:"pos"`   // index among the encoded digits (EAN-13: 0..11, EAN-8: 0..7)
	Shift  [3]int `json:"shift"` // pixels by which inner edge j moves to the right
}

func checkDigitRow(raw json.RawMessage) error {
	var c DigitRow
	if err := json.Unmarshal(raw, &c); err != nil {
		return fmt.Errorf("hx: %v", err)
	}
	var mod string
	var err error
	half := 6
	if c.Sym == "EAN8" {
		mod, err = onedref.EAN8Modules(c.Digits)
		half = 4
	} else {
		mod, err = onedref.EAN13Modules(c.Digits)
	}
	if err != nil || !onedref.ValidCheck(c.Digits) || c.Scale < 1 || c.Pos < 0 || c.Pos >= 2*half {
		return fmt.Errorf("hx: bad digit row case")
	}
	start := 3 + 7*c.Pos
	if c.Pos >= half {
		start += 5
	}
	// the digit's four runs, in pixels
	_, lens := runs(mod[start : start+7])
	if len(lens) != 4 {
		return fmt.Errorf("hx: digit does not have four runs")
	}
	px := make([]int, 4)
	for i := range px {
		px[i] = lens[i] * c.Scale
	}
	for j := 0; j < 3; j++ {
		px[j] += c.Shift[j]
		px[j+1] -= c.Shift[j]
	}
	for _, v := range px {
		if v < 1 {
			return nil // the shift swallows a run: not a distorted digit any more
		}
	}
	pt := oned.VerifPatternTables()
	lim := oned.VerifBestMatchLimits()["upcean"]
	rows := pt["upcean_l"]
	encoded := c.Digits
	if c.Sym != "EAN8" {
		encoded = c.Digits[1:]
	}
	want := int(encoded[c.Pos] - '0')
	if c.Sym != "EAN8" && c.Pos < half {
		rows = pt["upcean_l_and_g"]
		// the template the reference symbol uses at this position: L (index digit) or G (index digit+10)
		_, l0 := runs(mod[start : start+7])
		for idx, tpl := range rows {
			if idx%10 == want && tpl[0] == l0[0] && tpl[1] == l0[1] && tpl[2] == l0[2] && tpl[3] == l0[3] {
				want = idx
				break
			}
		}
	}
	o := bestRef(px, rows, lim[0], lim[1])
	if o.skip != "" || !o.found || o.index != want {
		return nil // the distorted digit is not (uniquely) its own best match any more: nothing is promised
	}
	// pixel row
	var sb strings.Builder
	sb.WriteString(strings.Repeat("0", 12*c.Scale))
	for i := 0; i < len(mod); i++ {
		if i == start {
			col := mod[start]
			for _, v := range px {
				sb.WriteString(strings.Repeat(string(col), v))
				col ^= 1
			}
			i += 6
			continue
		}
		sb.WriteString(strings.Repeat(string(mod[i]), c.Scale))
	}
	sb.WriteString(strings.Repeat("0", 12*c.Scale))
	row := sb.String()
	bm, _ := gozxing.NewBitMatrix(len(row), 6)
	for x := 0; x < len(row); x++ {
		if row[x] == '1' {
			for y := 0; y < 6; y++ {
				bm.Set(x, y)
			}
		}
	}
	bmp, _ := gozxing.NewBinaryBitmapFromImage(bm)
	var rd gozxing.Reader = oned.NewEAN13Reader()
	if c.Sym == "EAN8" {
		rd = oned.NewEAN8Reader()
	}
	res, derr := rd.Decode(bmp, nil)
	desc := fmt.Sprintf("%s %s at %d px per module, digit %d distorted to runs %v (reference score %.4f against its own template, the lowest)", c.Sym, c.Digits, c.Scale, c.Pos, px, o.score)
	if derr != nil {
		return fmt.Errorf("not read (%v) although every digit's own template is its unique best match below the limit [%s]", derr, desc)
	}
	if res.GetText() != c.Digits {
		return fmt.Errorf("read as %q [%s]", res.GetText(), desc)
	}
	return nil
}

// GuardCase: the ITF guard search from the first bar of a row. Model: slide over windows of
// len(pattern) runs that begin with a bar (a window counts once the next run has begun); the first
// whose reference score against the pattern is below the ITF maximum average variance is {start, end}.
type GuardCase struct {
	Row     string `json:"row"`
	Pattern []int  `json:"pattern"`
}

func checkGuard(raw json.RawMessage) error {
	var c GuardCase
	if err := json.Unmarshal(raw, &c); err != nil {
		return fmt.Errorf("hx: %v", err)
	}
	lim := oned.VerifBestMatchLimits()["itf"]
	starts, lens := runs(c.Row)
	first := 0
	if len(c.Row) > 0 && c.Row[0] == '0' {
		first = 1
	}
	if first >= len(starts) {
		return nil
	}
	n := len(c.Pattern)
	found, ws, we := false, 0, 0
	for k := first; k+n < len(lens); k += 2 {
		o := bestRef(lens[k:k+n], [][]int{c.Pattern}, lim[0], lim[1])
		if o.skip != "" {
			return nil
		}
		if o.found {
			found, ws, we = true, starts[k], starts[k+n]
			break
		}
	}
	got, err := oned.VerifITFFindGuardPattern(rowOf(c.Row), starts[first], append([]int(nil), c.Pattern...))
	desc := fmt.Sprintf("pattern %v, row %s", c.Pattern, c.Row)
	if len(desc) > 400 {
		desc = desc[:400] + "..."
	}
	if !found {
		if err == nil {
			return fmt.Errorf("guard %v reported, no window scores below the limit %v [%s]", got, lim[0], desc)
		}
		if !isNotFound(err) {
			return fmt.Errorf("error is not NotFound: %v [%s]", err, desc)
		}
		return nil
	}
	if err != nil {
		return fmt.Errorf("no guard found, the model finds one at [%d,%d) [%s]", ws, we, desc)
	}
	if len(got) != 2 || got[0] != ws || got[1] != we {
		return fmt.Errorf("guard %v, the model finds [%d,%d) [%s]", got, ws, we, desc)
	}
	return nil
}

type table struct {
	name string
	rows [][]int
}

func tables() []table {
	var out []table
	pt := oned.VerifPatternTables()
	names := make([]string, 0, len(pt))
	for n := range pt {
		names = append(names, n)
	}
	sort.Strings(names)
	for _, n := range names {
		out = append(out, table{n, pt[n]})
	}
	out = append(out, table{"rss14_finder", rss.VerifFinderPatterns()})
	return out
}

var limits = []float64{0.7, 0.5, 0.78, 0.45, 0.2, 1.0, 0.0, 0.25}

// FCase: the RSS finder-pattern acceptance test on four runs. Contract (ISO/IEC 24724 finder
// proportions as upstream applies them): accept iff the first two runs make up between 9.5/12 and
// 12.5/14 of the four (both ends included) and the widest run is less than ten times the narrowest.
// Evaluated here in integer arithmetic; the answer cannot depend on a common scale factor.
type FCase struct {
	Counters []int `json:"counters"`
	Scale    int   `json:"scale"`
}

func checkFinderRatio(raw json.RawMessage) error {
	var c FCase
	if err := json.Unmarshal(raw, &c); err != nil || len(c.Counters) != 4 || c.Scale < 1 {
		return fmt.Errorf("hx: bad case")
	}
	cnt := make([]int, 4)
	mn, mx := 1<<30, 0
	for i, v := range c.Counters {
		if v < 1 {
			return fmt.Errorf("hx: bad case")
		}
		cnt[i] = v * c.Scale
		mn, mx = min(mn, cnt[i]), max(mx, cnt[i])
	}
	f := cnt[0] + cnt[1]
	sum := f + cnt[2] + cnt[3]
	want := 24*f >= 19*sum && 28*f <= 25*sum && mx < 10*mn
	in := append([]int(nil), cnt...)
	var got bool
	if pe := hx.Safe(func() error { got = rss.RSSReader_isFinderPattern(in); return nil }); pe != nil {
		return fmt.Errorf("RSSReader_isFinderPattern(%v) panicked: %v", cnt, pe)
	}
	if got != want {
		return fmt.Errorf("RSSReader_isFinderPattern(%v) = %v; first two runs are %d of %d (allowed 9.5/12 .. 12.5/14), widest %d, narrowest %d (must be < 10x): expected %v", cnt, got, f, sum, mx, mn, want)
	}
	for i := range in {
		if in[i] != cnt[i] {
			return fmt.Errorf("RSSReader_isFinderPattern(%v) modified its argument to %v", cnt, in)
		}
	}
	return nil
}

// C39Case: a Code 39 row (runs taken from the library's own clean symbol, module width Mult) whose
// data characters have some runs widened by a pixel or two, then enlarged by Scale. A character is
// nine runs of which the three widest are the wide ones; the classification is unambiguous when the
// third widest is strictly wider than the fourth, and upstream accepts it when no wide run is 1.5
// times the average wide run or more (2*w < sum of the three). Whenever every data character of the
// distorted row still classifies to its own narrow/wide pattern by that rule, the reader must return
// the text - at scale 1 and at every integer multiple alike.
type C39Case struct {
	Text   string   `json:"text"`
	Mult   int      `json:"mult"`
	Deltas [][3]int `json:"deltas"` // (data character index, run 0..8, pixels added)
	Scale  int      `json:"scale"`
}

func c39Runs(c C39Case) (runs []int, demand bool, why string, err error) {
	bm, e := oned.NewCode39Writer().Encode(c.Text, gozxing.BarcodeFormat_CODE_39, 0, 1, map[gozxing.EncodeHintType]interface{}{gozxing.EncodeHintType_MARGIN: 0})
	if e != nil {
		return nil, false, "", fmt.Errorf("hx: writer: %v", e)
	}
	cur, n := true, 0
	for x := 0; x < bm.GetWidth(); x++ {
		if bm.Get(x, 0) == cur {
			n++
		} else {
			runs = append(runs, n)
			cur, n = !cur, 1
		}
	}
	runs = append(runs, n)
	nch := len(c.Text) + 2
	if len(runs) != 10*nch-1 {
		return nil, false, "", fmt.Errorf("hx: %d runs for %d characters", len(runs), nch)
	}
	clean := append([]int(nil), runs...)
	for i := range runs {
		runs[i] *= c.Mult
	}
	for _, d := range c.Deltas {
		if d[0] < 0 || d[0] >= len(c.Text) || d[1] < 0 || d[1] > 8 || d[2] < 1 || d[2] > 3 {
			return nil, false, "", fmt.Errorf("hx: bad delta %v", d)
		}
		runs[10*(d[0]+1)+d[1]] += d[2]
	}
	demand = true
	for j := 1; j <= len(c.Text); j++ {
		g := runs[10*j : 10*j+9]
		srt := append([]int(nil), g...)
		sort.Sort(sort.Reverse(sort.IntSlice(srt)))
		if srt[2] <= srt[3] {
			return runs, false, "ambiguous", nil
		}
		if 2*srt[0] >= srt[0]+srt[1]+srt[2] {
			return runs, false, "wide_run_too_wide", nil
		}
		for i := 0; i < 9; i++ {
			if (g[i] > srt[3]) != (clean[10*j+i] > 1) {
				return runs, false, "other_pattern", nil
			}
		}
	}
	return runs, demand, "", nil
}

func checkC39(raw json.RawMessage) error {
	var c C39Case
	if err := json.Unmarshal(raw, &c); err != nil || c.Mult < 1 || c.Scale < 1 || len(c.Text) == 0 {
		return fmt.Errorf("hx: bad case")
	}
	runs, demand, _, err := c39Runs(c)
	if err != nil {
		return err
	}
	if !demand {
		return nil
	}
	for _, k := range []int{1, c.Scale} {
		var sb strings.Builder
		sb.WriteString(strings.Repeat("0", 40*c.Mult*k))
		for i, r := range runs {
			ch := "1"
			if i%2 == 1 {
				ch = "0"
			}
			sb.WriteString(strings.Repeat(ch, r*k))
		}
		sb.WriteString(strings.Repeat("0", 40*c.Mult*k))
		row := rowOf(sb.String())
		var res *gozxing.Result
		var e error
		if pe := hx.Safe(func() error { res, e = oned.NewCode39Reader().(interface {
			DecodeRow(int, *gozxing.BitArray, map[gozxing.DecodeHintType]interface{}) (*gozxing.Result, error)
		}).DecodeRow(0, row, nil); return nil }); pe != nil {
			return fmt.Errorf("Code 39 DecodeRow panicked: %v", pe)
		}
		desc := fmt.Sprintf("text %q, module %d px, widened runs (character, run, pixels) %v, enlarged %dx; runs before enlarging %v", c.Text, c.Mult, c.Deltas, k, runs)
		if e != nil {
			return fmt.Errorf("Code 39 row not read although every character keeps three unambiguous wide runs, none 1.5x the average wide run: %v [%s]", e, desc)
		}
		if res.GetText() != c.Text {
			return fmt.Errorf("Code 39 row read as %q [%s]", res.GetText(), desc)
		}
	}
	return nil
}

func TestCheck(t *testing.T) {
	hx.Main(t, "C20", func(c *hx.Ctx) {
		c.Register("record", checkRecord)
		c.Register("variance", checkVariance)
		c.Register("best", checkBest)
		c.Register("c128start", checkStart)
		c.Register("digitrow", checkDigitRow)
		c.Register("itfguard", checkGuard)
		c.Register("finder_ratio", checkFinderRatio)
		c.Register("code39_rows", checkC39)
	}, func(c *hx.Ctx) {
		// (1) RecordPattern forward / reverse, rapid rows
		rprop := func(rev bool, sub string) func(t *rapid.T) {
			return func(t *rapid.T) {
				row := genRow(t)
				cs := RCase{Row: row, N: rapid.IntRange(1, 10).Draw(t, "n"), Reverse: rev}
				if rev {
					if len(row) == 0 {
						t.Skip("reverse needs a pixel to start from")
					}
					cs.Start = rapid.IntRange(0, len(row)-1).Draw(t, "start")
				} else {
					cs.Start = rapid.IntRange(0, len(row)).Draw(t, "start")
				}
				_, lens := runs(row)
				nt := len(lens) > cs.N
				cl := "fills"
				if !nt {
					cl = "row_ends_first"
				}
				raw, _ := json.Marshal(cs)
				c.Note(sub, cl, nt, hx.Hash(raw), func() any { return cs })
				if err := c.Eval("record", cs); err != nil {
					t.Fatalf("%v", err)
				}
			}
		}
		// (0) RSS finder acceptance: every vector of four runs 1..20 (exhaustive), and larger / scaled ones
		{
			fi := 0
			for a := 1; a <= 20; a++ {
				for b := 1; b <= 20; b++ {
					fi++
					if !c.Mine(fi) {
						continue
					}
					for d := 1; d <= 20; d++ {
						for e := 1; e <= 20; e++ {
							cs := FCase{Counters: []int{a, b, d, e}, Scale: 1}
							f, sum := a+b, a+b+d+e
							nt := 24*f >= 19*sum && 28*f <= 25*sum
							var key uint64
							if nt {
								raw, _ := json.Marshal(cs)
								key = hx.Hash(raw)
							}
							c.Note("rss_finder_ratio_exhaustive", fmt.Sprintf("ratio_in_range=%v", nt), nt, key, func() any { return cs })
							if !c.Enum("rss_finder_ratio_exhaustive", "finder_ratio", cs, nil) {
								break
							}
						}
					}
				}
			}
			c.SetExhaustive("rss_finder_ratio_exhaustive", true)
		}
		c.Rapid("rss_finder_ratio_scaled", c.N(6000, 80000), func(t *rapid.T) {
			// constructed so that the ratio test is passed most of the time: first two runs ~ 10/12 .. 12/14 of the whole
			rest := [2]int{rapid.IntRange(1, 12).Draw(t, "c2"), rapid.IntRange(1, 12).Draw(t, "c3")}
			f := (rest[0] + rest[1]) * rapid.IntRange(30, 95).Draw(t, "tenths") / 10
			c0 := rapid.IntRange(1, max(1, f-1)).Draw(t, "c0")
			if rapid.IntRange(0, 2).Draw(t, "narrow_first") == 0 {
				c0 = rapid.IntRange(1, 3).Draw(t, "c0n")
			}
			cs := FCase{Counters: []int{c0, max(1, f-c0), rest[0], rest[1]}, Scale: rapid.IntRange(1, 9).Draw(t, "scale")}
			ff, sum := cs.Counters[0]+cs.Counters[1], cs.Counters[0]+cs.Counters[1]+rest[0]+rest[1]
			inr := 24*ff >= 19*sum && 28*ff <= 25*sum
			mn, mx := 1<<30, 0
			for _, v := range cs.Counters {
				mn, mx = min(mn, v), max(mx, v)
			}
			raw, _ := json.Marshal(cs)
			c.Note("rss_finder_ratio_scaled", fmt.Sprintf("ratio_in_range=%v;widest_ge_10x_narrowest=%v;scale>1=%v", inr, mx >= 10*mn, cs.Scale > 1), inr, hx.Hash(raw), func() any { return cs })
			if err := c.Eval("finder_ratio", cs); err != nil {
				t.Fatalf("%v", err)
			}
		})
		c.Rapid("code39_widened_runs", c.N(2500, 40000), func(t *rapid.T) {
			const alphabet = "0123456789ABCDEFGHIJKLMNOPQRSTUVWXYZ-. $/+%"
			n := rapid.IntRange(1, 6).Draw(t, "len")
			b := make([]byte, n)
			for i := range b {
				b[i] = alphabet[rapid.IntRange(0, len(alphabet)-1).Draw(t, "ch")]
			}
			cs := C39Case{Text: string(b), Mult: rapid.IntRange(1, 4).Draw(t, "mult"), Scale: rapid.IntRange(2, 5).Draw(t, "scale")}
			nd := rapid.IntRange(0, 3).Draw(t, "ndeltas")
			for i := 0; i < nd; i++ {
				cs.Deltas = append(cs.Deltas, [3]int{rapid.IntRange(0, n-1).Draw(t, "dchar"), rapid.IntRange(0, 8).Draw(t, "drun"), rapid.IntRange(1, min(3, cs.Mult+1)).Draw(t, "dpx")})
			}
			_, demand, why, err := c39Runs(cs)
			if err != nil {
				t.Fatalf("%v", err)
			}
			cl := fmt.Sprintf("module=%d;widened=%d;demanded=%v", cs.Mult, min(nd, 2), demand)
			if why != "" {
				cl += ";not_demanded=" + why
			}
			raw, _ := json.Marshal(cs)
			c.Note("code39_widened_runs", cl, demand && nd > 0, hx.Hash(raw), func() any { return cs })
			if err := c.Eval("code39_rows", cs); err != nil {
				t.Fatalf("%v", err)
			}
		})
		c.Rapid("record_forward", c.N(6000, 60000), rprop(false, "record_forward"))
		c.Rapid("record_reverse", c.N(6000, 60000), rprop(true, "record_reverse"))
		// (1b) every start and counter length on a handful of fixed-shape rows (exhaustive in start, n)
		shapes := []string{"", "0", "1", "01", "10", "0011100101", "111111", "0101010101010101010101", "1110001111000011111000000"}
		idx := 0
		for _, s := range shapes {
			for n := 1; n <= 10; n++ {
				for st := 0; st <= len(s); st++ {
					for _, rev := range []bool{false, true} {
						if rev && st >= len(s) {
							continue
						}
						idx++
						if !c.Mine(idx) {
							continue
						}
						cs := RCase{Row: s, Start: st, N: n, Reverse: rev}
						raw, _ := json.Marshal(cs)
						c.Note("record_small_exhaustive", "", true, hx.Hash(raw), nil)
						if !c.Enum("record_small_exhaustive", "record", cs, nil) {
							break
						}
					}
				}
			}
		}
		c.SetExhaustive("record_small_exhaustive", true)

		// (2) PatternMatchVariance: every table row, counters exhaustive over 0..6 (lengths <= 7)
		tabs := tables()
		nrows := 0
		tcount := map[string]int{}
		for _, tb := range tabs {
			nrows += len(tb.rows)
			tcount[tb.name] = len(tb.rows)
		}
		c.Extra("pattern_tables", tcount)
		maxEntry := 6
		ri := 0
		fullExh := true
		for _, tb := range tabs {
			for _, pat := range tb.rows {
				ri++
				if !c.Mine(ri) {
					continue
				}
				L := len(pat)
				// quick: lengths <= 5 fully, longer strided; thorough: all
				total := 1
				for i := 0; i < L; i++ {
					total *= maxEntry + 1
				}
				stride := 1
				if !c.Thorough() && total > 20000 {
					stride = total/20000 + 1
					if stride%7 == 0 {
						stride++
					}
					fullExh = false
				}
				lim := limits[ri%len(limits)]
				cnt := make([]int, L)
				for v := int(c.Seed("var", ri) % uint64(stride)); v < total; v += stride {
					x := v
					for i := 0; i < L; i++ {
						cnt[i] = x % (maxEntry + 1)
						x /= maxEntry + 1
					}
					cs := VCase{Counters: append([]int(nil), cnt...), Pattern: pat, MaxInd: lim}
					cl, nt := classify(cs)
					var key uint64
					if nt {
						raw, _ := json.Marshal(cs)
						key = hx.Hash(raw)
					}
					c.Note("variance_tables_exhaustive", cl+";table="+tb.name, nt, key, func() any { return cs })
					if !c.Enum("variance_tables_exhaustive", "variance", cs, nil) {
						break
					}
				}
			}
		}
		c.SetExhaustive("variance_tables_exhaustive", fullExh)

		// (3) rapid: table and generated patterns, counters up to 40, all limits
		vprop := func(t *rapid.T) {
			var pat []int
			if rapid.Bool().Draw(t, "fromtable") {
				tb := tabs[rapid.IntRange(0, len(tabs)-1).Draw(t, "table")]
				pat = tb.rows[rapid.IntRange(0, len(tb.rows)-1).Draw(t, "row")]
			} else {
				pat = rapid.SliceOfN(rapid.IntRange(1, 4), 1, 10).Draw(t, "pattern")
			}
			cnt := make([]int, len(pat))
			mode := rapid.IntRange(0, 3).Draw(t, "mode")
			k := rapid.IntRange(1, 10).Draw(t, "scale")
			for i := range cnt {
				switch mode {
				case 0: // near an exact multiple
					cnt[i] = k*pat[i] + rapid.IntRange(-2, 2).Draw(t, "jit")
					if cnt[i] < 0 {
						cnt[i] = 0
					}
				case 1:
					cnt[i] = k * pat[i]
				default:
					cnt[i] = rapid.IntRange(0, 40).Draw(t, "c")
				}
			}
			lim := rapid.SampledFrom(limits).Draw(t, "limit")
			if rapid.IntRange(0, 4).Draw(t, "freelim") == 0 {
				lim = rapid.Float64Range(0, 1.5).Draw(t, "lim")
			}
			cs := VCase{Counters: cnt, Pattern: pat, MaxInd: lim}
			cl, nt := classify(cs)
			raw, _ := json.Marshal(cs)
			c.Note("variance_random", cl, nt, hx.Hash(raw), func() any { return cs })
			if err := c.Eval("variance", cs); err != nil {
				t.Fatalf("%v", err)
			}
		}
		c.Rapid("variance_random", c.N(20000, 200000), vprop)

		// (4) best-match decoders built on the score: every small run vector, then rapid
		noteBest := func(sub string, cs BCase) {
			rows, lim, _ := bestTable(cs.Decoder)
			o := bestRef(cs.Counters, rows, lim[0], lim[1])
			if cs.Decoder == "rss_finder" {
				o = firstRef(cs.Counters, rows, lim[0], lim[1])
			}
			cl, nt := cs.Decoder+";no_template_close_enough", true
			switch {
			case o.skip != "":
				cl, nt = cs.Decoder+";skipped_"+o.skip, false
			case o.found && o.score == 0:
				cl, nt = cs.Decoder+";exact_multiple", false
			case o.found && cs.Decoder == "itf" && o.index >= 10:
				cl = cs.Decoder + ";distorted;3x_wide_template"
			case o.found:
				cl = cs.Decoder + ";distorted"
			}
			raw, _ := json.Marshal(cs)
			c.Note(sub, cl, nt, hx.Hash(raw), func() any { return cs })
		}
		bidx := 0
		for _, d := range []struct {
			dec string
			max int
		}{{"itf", c.N(6, 9)}, {"upcean_l", c.N(8, 12)}, {"upcean_l_and_g", c.N(8, 12)}, {"code128", c.N(3, 5)}, {"rss_finder", c.N(12, 24)}} {
			_, _, n := bestTable(d.dec)
			cnt := make([]int, n)
			for i := range cnt {
				cnt[i] = 1
			}
			for {
				bidx++
				if c.Mine(bidx) {
					cs := BCase{Decoder: d.dec, Counters: append([]int(nil), cnt...), Offset: bidx % 3}
					if tr := (bidx / 3) % 4; tr != 3 {
						cs.Trail = &tr
					}
					noteBest("best_match_small_exhaustive", cs)
					if !c.Enum("best_match_small_exhaustive", "best", cs, nil) {
						break
					}
				}
				i := 0
				for ; i < n; i++ {
					cnt[i]++
					if cnt[i] <= d.max {
						break
					}
					cnt[i] = 1
				}
				if i == n {
					break
				}
			}
		}
		c.SetExhaustive("best_match_small_exhaustive", true)
		// (7) ITF guard search: junk, then a start / end guard with ink spread up to and beyond the limit
		c.Rapid("itf_guard_search", c.N(3000, 50000), func(t *rapid.T) {
			pat := rapid.SampledFrom([][]int{{1, 1, 1, 1}, {1, 1, 2}, {1, 1, 3}}).Draw(t, "pattern")
			var sb strings.Builder
			col := byte('0')
			put := func(n int) {
				for i := 0; i < n; i++ {
					sb.WriteByte(col)
				}
				col ^= 1
			}
			put(rapid.IntRange(1, 10).Draw(t, "lead"))
			k := rapid.IntRange(1, 12).Draw(t, "scale")
			for sgm, nseg := 0, rapid.IntRange(1, 3).Draw(t, "segments"); sgm < nseg; sgm++ {
				if rapid.Bool().Draw(t, "junk") {
					for i, n := 0, 2*rapid.IntRange(0, 3).Draw(t, "njunk"); i < n; i++ {
						put(rapid.IntRange(1, 3*k).Draw(t, "junkrun"))
					}
				}
				if col == '0' {
					put(rapid.IntRange(1, 2*k).Draw(t, "gap"))
				}
				// uniform ink spread: bars gain, spaces lose
				spread := rapid.IntRange(-k/2, k/2+1).Draw(t, "spread")
				for i, p := range pat {
					n := p * k
					if i%2 == 0 {
						n += spread
					} else {
						n -= spread
					}
					if n < 1 {
						n = 1
					}
					put(n)
				}
			}
			for i, n := 0, rapid.IntRange(1, 4).Draw(t, "tail"); i < n; i++ {
				put(rapid.IntRange(1, 2*k).Draw(t, "tl"))
			}
			cs := GuardCase{Row: sb.String(), Pattern: pat}
			c.Note("itf_guard_search", fmt.Sprintf("pattern_len=%d", len(pat)), true, hx.HashS("itfg", cs.Row, fmt.Sprint(pat)), func() any { return cs })
			if err := c.Eval("itfguard", cs); err != nil {
				t.Fatalf("%v", err)
			}
		})
		// (6) whole EAN symbols with one distorted digit
		c.Rapid("upcean_distorted_digit_rows", c.N(2500, 40000), func(t *rapid.T) {
			sym := rapid.SampledFrom([]string{"EAN13", "EAN13", "EAN8"}).Draw(t, "sym")
			n := 12
			if sym == "EAN8" {
				n = 7
			}
			rng := hx.NewRng(rapid.Uint64().Draw(t, "number"))
			d := make([]byte, n)
			for i := range d {
				d[i] = byte('0' + rng.Intn(10))
			}
			body := string(d)
			full := body + string(rune('0'+onedref.CheckDigit(body)))
			k := rapid.IntRange(2, 6).Draw(t, "scale")
			cs := DigitRow{Sym: sym, Digits: full, Scale: k, Pos: rapid.IntRange(0, map[string]int{"EAN13": 11, "EAN8": 7}[sym]).Draw(t, "pos")}
			for j := range cs.Shift {
				cs.Shift[j] = rapid.IntRange(-k, k).Draw(t, "shift")
			}
			half := "left"
			if (sym == "EAN13" && cs.Pos >= 6) || (sym == "EAN8" && cs.Pos >= 4) {
				half = "right"
			}
			nt := cs.Shift != [3]int{}
			c.Note("upcean_distorted_digit_rows", "sym="+sym+";half="+half, nt, hx.HashS("drow", fmt.Sprint(cs)), func() any { return cs })
			if err := c.Eval("digitrow", cs); err != nil {
				t.Fatalf("%v", err)
			}
		})
		// (5) Code 128 start search: rows with junk, start-like windows without a quiet zone, distorted starts
		c.Rapid("code128_start_search", c.N(3000, 50000), func(t *rapid.T) {
			pt := oned.VerifPatternTables()["code128"]
			var sb strings.Builder
			col := byte('0')
			put := func(n int) {
				for i := 0; i < n; i++ {
					sb.WriteByte(col)
				}
				col ^= 1
			}
			put(rapid.IntRange(0, 12).Draw(t, "lead"))
			if sb.Len() == 0 {
				col = '1'
			}
			nseg := rapid.IntRange(1, 4).Draw(t, "segments")
			real, decoy := 0, 0
			for sgm := 0; sgm < nseg; sgm++ {
				switch rapid.IntRange(0, 3).Draw(t, "segkind") {
				case 0: // junk runs
					for i, n := 0, rapid.IntRange(1, 6).Draw(t, "njunk"); i < n; i++ {
						put(rapid.IntRange(1, 9).Draw(t, "junk"))
					}
				default: // a (possibly distorted) start pattern, with or without a quiet zone before it
					if col == '1' {
						put(rapid.IntRange(1, 3).Draw(t, "bar")) // stray bar
					}
					k := rapid.IntRange(1, 5).Draw(t, "scale")
					quiet := rapid.SampledFrom([]int{0, 1, 2, 6, 12}).Draw(t, "quiet") * k
					if quiet == 0 {
						quiet = 1
						decoy++
					} else {
						real++
					}
					put(quiet) // white
					p := pt[103+rapid.IntRange(0, 2).Draw(t, "startcode")]
					for i := 0; i < 6; i++ {
						n := k * p[i]
						if rapid.IntRange(0, 3).Draw(t, "jit") == 0 {
							n += rapid.IntRange(-k/2-1, k/2+1).Draw(t, "j")
						}
						if n < 1 {
							n = 1
						}
						put(n)
					}
				}
			}
			for i, n := 0, rapid.IntRange(1, 5).Draw(t, "tail"); i < n; i++ {
				put(rapid.IntRange(1, 8).Draw(t, "tl"))
			}
			cs := StartCase{Row: sb.String()}
			cl := fmt.Sprintf("starts_with_quiet_zone=%d;start_like_without=%d", min(real, 2), min(decoy, 2))
			c.Note("code128_start_search", cl, real+decoy > 0, hx.HashS("c128s", cs.Row), func() any { return cs })
			if err := c.Eval("c128start", cs); err != nil {
				t.Fatalf("%v", err)
			}
		})
		c.Rapid("best_match_random", c.N(6000, 100000), func(t *rapid.T) {
			dec := rapid.SampledFrom([]string{"itf", "itf", "code128", "upcean_l", "upcean_l_and_g", "rss_finder", "rss_finder"}).Draw(t, "decoder")
			rows, _, n := bestTable(dec)
			pat := rows[rapid.IntRange(0, len(rows)-1).Draw(t, "template")]
			k := rapid.IntRange(1, 8).Draw(t, "scale")
			cnt := make([]int, n)
			mode := rapid.IntRange(0, 2).Draw(t, "mode")
			for i := range cnt {
				cnt[i] = k * pat[i]
				switch mode {
				case 0:
					if rapid.IntRange(0, 2).Draw(t, "touch") == 0 {
						cnt[i] += rapid.IntRange(-k, k).Draw(t, "jit")
					}
				case 1:
					cnt[i] += rapid.IntRange(-(k+1)/2, (k+1)/2).Draw(t, "jit2")
				default:
					cnt[i] = rapid.IntRange(1, 4*k).Draw(t, "free")
				}
				if cnt[i] < 1 {
					cnt[i] = 1
				}
			}
			cs := BCase{Decoder: dec, Counters: cnt, Offset: rapid.IntRange(0, 40).Draw(t, "offset")}
			if tr := rapid.IntRange(0, 5).Draw(t, "trail"); tr < 3 {
				cs.Trail = &tr
			}
			noteBest("best_match_random", cs)
			if err := c.Eval("best", cs); err != nil {
				t.Fatalf("%v", err)
			}
		})
	})
}
