// C13: smallest adequate symbol chosen; size hints and capacity limits honoured.
package c13

import (
	"encoding/json"
	"fmt"
	"strings"
	"testing"

	"github.com/makiuchi-d/gozxing"
	"github.com/makiuchi-d/gozxing/datamatrix"
	dmenc "github.com/makiuchi-d/gozxing/datamatrix/encoder"
	"github.com/makiuchi-d/gozxing/qrcode"
	"github.com/makiuchi-d/gozxing/qrcode/encoder"
	"pgregory.net/rapid"

	"verif/internal/dmref"
	"verif/internal/dmx"
	"verif/internal/hx"
	"verif/internal/qrref"
	"verif/internal/qrx"
)

// QRCase: n characters of a mode at a level, optional forced version.
type QRCase struct {
	Mode   int `json:"mode"`
	Level  int `json:"level"`
	N      int `json:"n"`
	Force  int `json:"force_version"` // 0 = automatic
	Margin int `json:"margin"`        // >0: also check the rendered size
}

func payload(mode, n int) string {
	switch mode {
	case qrref.Numeric:
		return strings.Repeat("7", n)
	case qrref.Alnum:
		return "A" + strings.Repeat("Z", n-1)
	case qrref.Byte:
		return "a" + strings.Repeat("z", n-1)
	case qrref.Kanji:
		return strings.Repeat(string(qrx.KanjiRunes()[100]), n)
	}
	panic("mode")
}

func checkQR(raw json.RawMessage) error {
	var c QRCase
	if err := json.Unmarshal(raw, &c); err != nil {
		return fmt.Errorf("hx: %v", err)
	}
	hints := map[gozxing.EncodeHintType]interface{}{gozxing.EncodeHintType_QR_MASK_PATTERN: 0}
	if c.Mode == qrref.Kanji {
		hints[gozxing.EncodeHintType_CHARACTER_SET] = "Shift_JIS"
	}
	if c.Force > 0 {
		hints[gozxing.EncodeHintType_QR_VERSION] = c.Force
	}
	text := payload(c.Mode, c.N)
	code, err := encoder.Encoder_encode(text, qrx.LibLevel(c.Level), hints)
	desc := fmt.Sprintf("%d %s characters at level %s", c.N, qrref.ModeNames[c.Mode], qrref.LevelNames[c.Level])
	var want int
	if c.Force > 0 {
		if qrref.Fits(c.Mode, c.N, c.Force, c.Level, 0) {
			want = c.Force
		}
	} else {
		want = qrref.MinVersion(c.Mode, c.N, c.Level, 0)
	}
	if want == 0 {
		if err == nil {
			return fmt.Errorf("%s (forced version %d): encoded as version %d although the standard's capacity does not hold it", desc, c.Force, code.GetVersion().GetVersionNumber())
		}
		return nil
	}
	if err != nil {
		return fmt.Errorf("%s (forced version %d): refused (%v) although version %d holds it", desc, c.Force, err, want)
	}
	if got := code.GetVersion().GetVersionNumber(); got != want {
		return fmt.Errorf("%s (forced version %d): version %d chosen, smallest adequate version by the standard's formulae is %d", desc, c.Force, got, want)
	}
	if c.Margin > 0 {
		hints[gozxing.EncodeHintType_MARGIN] = c.Margin
		hints[gozxing.EncodeHintType_ERROR_CORRECTION] = qrx.LibLevel(c.Level)
		bm, err := qrcode.NewQRCodeWriter().Encode(text, gozxing.BarcodeFormat_QR_CODE, 0, 0, hints)
		if err != nil {
			return fmt.Errorf("%s: writer failed: %v", desc, err)
		}
		if d := 17 + 4*want + 2*c.Margin; bm.GetWidth() != d || bm.GetHeight() != d {
			return fmt.Errorf("%s: rendered %dx%d, expected %d (17+4*%d+2*%d)", desc, bm.GetWidth(), bm.GetHeight(), d, want, c.Margin)
		}
	}
	return nil
}

// DMCase: SymbolInfo_Lookup for n codewords under shape and min/max hints.
type DMCase struct {
	N     int `json:"n"`
	Shape int `json:"shape"` // 0 none, 1 square, 2 rectangle
	Min   int `json:"min"`   // index into dmref.Sizes, -1 none
	Max   int `json:"max"`
}

func refLookup(c DMCase) int {
	for _, k := range dmref.CapacityOrder() {
		a := dmref.Sizes[k]
		if c.Shape == 1 && a.Rect() || c.Shape == 2 && !a.Rect() {
			continue
		}
		if c.Min >= 0 {
			m := dmref.Sizes[c.Min]
			if a.Cols < m.Cols || a.Rows < m.Rows {
				continue
			}
		}
		if c.Max >= 0 {
			m := dmref.Sizes[c.Max]
			if a.Cols > m.Cols || a.Rows > m.Rows {
				continue
			}
		}
		if c.N <= a.Data {
			return k
		}
	}
	return -1
}

var shapes = []dmenc.SymbolShapeHint{dmenc.SymbolShapeHint_FORCE_NONE, dmenc.SymbolShapeHint_FORCE_SQUARE, dmenc.SymbolShapeHint_FORCE_RECTANGLE}

func dims(c DMCase) (min, max *gozxing.Dimension) {
	if c.Min >= 0 {
		min = dmx.Dim(dmref.Sizes[c.Min])
	}
	if c.Max >= 0 {
		max = dmx.Dim(dmref.Sizes[c.Max])
	}
	return
}

func checkDMLookup(c DMCase) error {
	want := refLookup(c)
	min, max := dims(c)
	for _, fail := range []bool{true, false} {
		si, err := dmenc.SymbolInfo_Lookup(c.N, shapes[c.Shape], min, max, fail)
		if want < 0 {
			if si != nil {
				return fmt.Errorf("lookup(%d codewords, shape %d, min %v, max %v) returned %dx%d, no admissible symbol by the standard", c.N, c.Shape, min, max, si.GetSymbolHeight(), si.GetSymbolWidth())
			}
			if fail && err == nil {
				return fmt.Errorf("lookup(%d, fail=true) returned neither symbol nor error", c.N)
			}
			if !fail && err != nil {
				return fmt.Errorf("lookup(%d, fail=false) returned an error: %v", c.N, err)
			}
			continue
		}
		a := dmref.Sizes[want]
		if err != nil || si == nil {
			return fmt.Errorf("lookup(%d codewords, shape %d, min %v, max %v) failed (%v); first admissible symbol in capacity order is %s", c.N, c.Shape, min, max, err, dmx.SizeName(a))
		}
		if si.GetSymbolWidth() != a.Cols || si.GetSymbolHeight() != a.Rows || si.GetDataCapacity() != a.Data {
			return fmt.Errorf("lookup(%d codewords, shape %d, min %v, max %v) = %dx%d (%d data); first admissible symbol in capacity order is %s (%d data)", c.N, c.Shape, min, max, si.GetSymbolHeight(), si.GetSymbolWidth(), si.GetDataCapacity(), dmx.SizeName(a), a.Data)
		}
	}
	return nil
}

func checkDM(raw json.RawMessage) error {
	var c DMCase
	if err := json.Unmarshal(raw, &c); err != nil {
		return fmt.Errorf("hx: %v", err)
	}
	return checkDMLookup(c)
}

// DMWriterCase: 2k digits -> exactly k codewords -> output dimensions.
type DMWriterCase struct {
	K     int `json:"k"`
	Shape int `json:"shape"`
	Min   int `json:"min"`
	Max   int `json:"max"`
}

func checkDMWriter(raw json.RawMessage) error {
	var c DMWriterCase
	if err := json.Unmarshal(raw, &c); err != nil {
		return fmt.Errorf("hx: %v", err)
	}
	var sb strings.Builder
	for i := 0; i < c.K; i++ {
		sb.WriteString([]string{"12", "90", "07", "55"}[i%4])
	}
	hints := map[gozxing.EncodeHintType]interface{}{}
	if c.Shape > 0 {
		hints[gozxing.EncodeHintType_DATA_MATRIX_SHAPE] = shapes[c.Shape]
	}
	dc := DMCase{N: c.K, Shape: c.Shape, Min: c.Min, Max: c.Max}
	min, max := dims(dc)
	if min != nil {
		hints[gozxing.EncodeHintType_MIN_SIZE] = min
	}
	if max != nil {
		hints[gozxing.EncodeHintType_MAX_SIZE] = max
	}
	want := refLookup(dc)
	var bm *gozxing.BitMatrix
	var err error
	if e := hx.Safe(func() error {
		bm, err = datamatrix.NewDataMatrixWriter().Encode(sb.String(), gozxing.BarcodeFormat_DATA_MATRIX, 0, 0, hints)
		return nil
	}); e != nil {
		if want < 0 {
			return fmt.Errorf("%d digit pairs (shape %d, min %v, max %v): no admissible symbol, but the writer crashed instead of refusing: %v", c.K, c.Shape, min, max, e)
		}
		return e
	}
	if want < 0 {
		if err == nil {
			return fmt.Errorf("%d digit pairs (shape %d, min %v, max %v): no admissible symbol by the standard, writer returned %dx%d", c.K, c.Shape, min, max, bm.GetHeight(), bm.GetWidth())
		}
		return nil
	}
	a := dmref.Sizes[want]
	if err != nil {
		return fmt.Errorf("%d digit pairs (shape %d, min %v, max %v): refused (%v), %s holds them", c.K, c.Shape, min, max, err, dmx.SizeName(a))
	}
	if bm.GetWidth() != a.Cols || bm.GetHeight() != a.Rows {
		return fmt.Errorf("%d digit pairs (shape %d, min %v, max %v): symbol %dx%d, smallest admissible is %s", c.K, c.Shape, min, max, bm.GetHeight(), bm.GetWidth(), dmx.SizeName(a))
	}
	return nil
}

// DMB256Case: a text of N extended characters (one Base-256 run). It needs N+2 codewords when it
// fills a symbol exactly (the length field of a run that ends the symbol is a single zero) or when
// N <= 249, and N+3 otherwise; the smallest admissible symbol that holds it is prescribed.
type DMB256Case struct {
	N     int `json:"n"`
	Shape int `json:"shape"`
}

func checkDMB256(raw json.RawMessage) error {
	var c DMB256Case
	if err := json.Unmarshal(raw, &c); err != nil {
		return fmt.Errorf("hx: %v", err)
	}
	rs := make([]rune, c.N)
	for i := range rs {
		rs[i] = rune(0x80 + (i*37+c.N)%0x80)
	}
	want := -1
	for _, k := range dmref.CapacityOrder() {
		a := dmref.Sizes[k]
		if c.Shape == 1 && a.Rect() || c.Shape == 2 && !a.Rect() {
			continue
		}
		need := c.N + 2
		if c.N > 249 && a.Data != c.N+2 {
			need = c.N + 3
		}
		if need <= a.Data {
			want = k
			break
		}
	}
	hints := map[gozxing.EncodeHintType]interface{}{}
	if c.Shape > 0 {
		hints[gozxing.EncodeHintType_DATA_MATRIX_SHAPE] = shapes[c.Shape]
	}
	var bm *gozxing.BitMatrix
	var err error
	if e := hx.Safe(func() error {
		bm, err = datamatrix.NewDataMatrixWriter().Encode(string(rs), gozxing.BarcodeFormat_DATA_MATRIX, 0, 0, hints)
		return nil
	}); e != nil {
		return e
	}
	desc := fmt.Sprintf("%d extended characters (one Base-256 run), shape %d", c.N, c.Shape)
	if want < 0 {
		if err == nil {
			return fmt.Errorf("%s: no admissible symbol holds the run, writer returned %dx%d", desc, bm.GetHeight(), bm.GetWidth())
		}
		return nil
	}
	a := dmref.Sizes[want]
	if err != nil {
		return fmt.Errorf("%s: refused (%v), %s holds it", desc, err, dmx.SizeName(a))
	}
	if bm.GetWidth() != a.Cols || bm.GetHeight() != a.Rows {
		return fmt.Errorf("%s: symbol %dx%d, smallest admissible is %s", desc, bm.GetHeight(), bm.GetWidth(), dmx.SizeName(a))
	}
	return nil
}

// DMWriterHistory: the same content encoded several times in one process under different
// MIN_SIZE / MAX_SIZE hints (none, one of them, both, swapped): every call must honour its own hints.
type DMWriterHistory struct {
	Steps []DMWriterCase `json:"steps"`
}

func checkDMWriterHistory(raw json.RawMessage) error {
	var h DMWriterHistory
	if err := json.Unmarshal(raw, &h); err != nil {
		return fmt.Errorf("hx: %v", err)
	}
	for i, st := range h.Steps {
		b, _ := json.Marshal(st)
		if err := checkDMWriter(b); err != nil {
			if strings.HasPrefix(err.Error(), "hx:") {
				return err
			}
			return fmt.Errorf("call %d of %d in one process (earlier calls: %+v): %v", i+1, len(h.Steps), h.Steps[:i], err)
		}
	}
	return nil
}

var modes = []int{qrref.Numeric, qrref.Alnum, qrref.Byte, qrref.Kanji}

func TestCheck(t *testing.T) {
	hx.Main(t, "C13", func(c *hx.Ctx) {
		c.Register("qr", checkQR)
		c.Register("dm_lookup", checkDM)
		c.Register("dm_writer", checkDMWriter)
		c.Register("dm_writer_history", checkDMWriterHistory)
		c.Register("dm_b256", checkDMB256)
	}, func(c *hx.Ctx) {
		// published anchor figures against the reference first
		anchors := []struct{ mode, v, level, want int }{
			{qrref.Numeric, 40, 0, 7089}, {qrref.Alnum, 40, 0, 4296}, {qrref.Byte, 40, 0, 2953}, {qrref.Kanji, 40, 0, 1817},
			{qrref.Numeric, 40, 3, 3057}, {qrref.Alnum, 40, 3, 1852}, {qrref.Byte, 40, 3, 1273}, {qrref.Kanji, 40, 3, 784},
			{qrref.Numeric, 1, 0, 41}, {qrref.Alnum, 1, 0, 25}, {qrref.Byte, 1, 0, 17}, {qrref.Kanji, 1, 0, 10},
		}
		for _, a := range anchors {
			if got := qrref.Capacity(a.mode, a.v, a.level, 0); got != a.want {
				c.Inconclusive(fmt.Sprintf("reference capacity %v = %d", a, got))
				return
			}
		}
		if dmref.Sizes[23].Data != 1558 {
			c.Inconclusive("reference 144x144 capacity")
			return
		}

		// QR: automatic version
		idx := 0
		qr := func(sub string, cs QRCase, boundary bool) {
			idx++
			if !c.Mine(idx) || cs.N < 1 {
				return
			}
			cl := fmt.Sprintf("mode=%s;level=%s", qrref.ModeNames[cs.Mode], qrref.LevelNames[cs.Level])
			if cs.Force > 0 {
				cl += ";forced"
			}
			raw, _ := json.Marshal(cs)
			c.Note(sub, cl, boundary, hx.Hash(raw), func() any { return cs })
			c.Enum(sub, "qr", cs, nil)
		}
		nearBoundary := func(mode, level, n int) bool {
			for d := -2; d <= 2; d++ {
				if n+d >= 1 && qrref.MinVersion(mode, n+d, level, 0) != qrref.MinVersion(mode, n, level, 0) {
					return true
				}
			}
			return false
		}
		for _, mode := range modes {
			for level := 0; level < 4; level++ {
				top := qrref.Capacity(mode, 40, level, 0)
				if c.Thorough() {
					for n := 1; n <= top+1; n++ {
						qr("qr_every_length", QRCase{Mode: mode, Level: level, N: n}, nearBoundary(mode, level, n))
					}
				}
				for v := 1; v <= 40; v++ {
					cp := qrref.Capacity(mode, v, level, 0)
					for _, n := range []int{cp - 1, cp, cp + 1} {
						m := 0
						if n == cp && v%5 == 0 {
							m = 4 + v%7
						}
						qr("qr_version_boundaries", QRCase{Mode: mode, Level: level, N: n, Margin: m}, true)
					}
					// forced version: cap fits, cap+1 must be refused; a small text keeps the forced version
					qr("qr_forced_version", QRCase{Mode: mode, Level: level, N: cp, Force: v}, true)
					qr("qr_forced_version", QRCase{Mode: mode, Level: level, N: cp + 1, Force: v}, true)
					qr("qr_forced_version", QRCase{Mode: mode, Level: level, N: 1 + (v*7+level)%cp, Force: v}, true)
				}
			}
		}
		c.SetExhaustive("qr_every_length", true)
		c.SetExhaustive("qr_version_boundaries", true)
		c.SetExhaustive("qr_forced_version", false)

		// Data Matrix: lookup over all n x shapes x (min,max) pairs
		var nAll, ntAll int64
		stop := false
		pair := 0
		for mn := -1; mn < len(dmref.Sizes) && !stop; mn++ {
			for mx := -1; mx < len(dmref.Sizes) && !stop; mx++ {
				pair++
				if !c.Mine(pair) {
					continue
				}
				if !c.Thorough() && mn >= 0 && mx >= 0 && (mn*31+mx+int(c.P.Seed))%4 != 0 {
					continue // quick: every pair with one side free, a quarter of the two-sided pairs
				}
				for shape := 0; shape < 3 && !stop; shape++ {
					prev := -2
					for n := 1; n <= 1559; n++ {
						cs := DMCase{N: n, Shape: shape, Min: mn, Max: mx}
						w := refLookup(cs)
						if err := checkDMLookup(cs); err != nil {
							stop = !c.Enum("dm_lookup_all", "dm_lookup", cs, nil)
							break
						}
						nAll++
						if w != prev || mn >= 0 || mx >= 0 || shape > 0 {
							ntAll++
						}
						prev = w
					}
				}
			}
		}
		c.NoteBulk("dm_lookup_all", "", nAll, ntAll, func() any { return DMCase{N: 45, Shape: 1, Min: 3, Max: 12} })
		c.SetExhaustive("dm_lookup_all", c.Thorough())

		// Data Matrix writer level: 2k digits
		idx = 0
		step := c.N(7, 1)
		for k := 1; k <= 1559; k++ {
			boundary := false
			for _, a := range dmref.Sizes {
				if k == a.Data || k == a.Data+1 {
					boundary = true
				}
			}
			if !boundary && (k+int(c.P.Seed))%step != 0 {
				continue
			}
			for shape := 0; shape < 3; shape++ {
				idx++
				if !c.Mine(idx) {
					continue
				}
				cs := DMWriterCase{K: k, Shape: shape, Min: -1, Max: -1}
				if !boundary && k%3 == 0 {
					cs.Min, cs.Max = (k/3)%30, -1
				} else if !boundary && k%3 == 1 {
					cs.Max = (k / 3) % 30
				}
				raw, _ := json.Marshal(cs)
				c.Note("dm_writer_digits", fmt.Sprintf("shape=%d", shape), boundary || cs.Min >= 0 || cs.Max >= 0 || shape > 0, hx.Hash(raw), func() any { return cs })
				c.Enum("dm_writer_digits", "dm_writer", cs, nil)
			}
		}
		c.SetExhaustive("dm_writer_digits", false)

		// Base-256 runs around every symbol capacity (the length field changes width at 250 bytes and
		// vanishes for a run that fills the symbol exactly)
		{
			idx := 0
			for _, a := range dmref.Sizes {
				for d := -6; d <= 1; d++ {
					n := a.Data + d
					if n < 1 || n > 1556 {
						continue
					}
					for shape := 0; shape < 3; shape++ {
						idx++
						if !c.Mine(idx) {
							continue
						}
						cs := DMB256Case{N: n, Shape: shape}
						c.Note("dm_writer_base256_runs", fmt.Sprintf("shape=%d", shape), true, hx.HashS("b256", fmt.Sprint(n, shape)), func() any { return cs })
						c.Enum("dm_writer_base256_runs", "dm_b256", cs, nil)
					}
				}
			}
			for _, n := range []int{248, 249, 250, 251, 252} {
				idx++
				if c.Mine(idx) {
					cs := DMB256Case{N: n}
					c.Note("dm_writer_base256_runs", "length_field_boundary", true, hx.HashS("b256", fmt.Sprint(n, 0)), func() any { return cs })
					c.Enum("dm_writer_base256_runs", "dm_b256", cs, nil)
				}
			}
			c.SetExhaustive("dm_writer_base256_runs", true)
		}

		// the same content under changing size hints within one process
		c.Rapid("dm_writer_hint_histories", c.N(150, 3000), func(t *rapid.T) {
			k := rapid.IntRange(1, 60).Draw(t, "k")
			if rapid.IntRange(0, 3).Draw(t, "bigk") == 0 {
				k = rapid.IntRange(1, 1559).Draw(t, "k2")
			}
			shape := rapid.SampledFrom([]int{0, 0, 1, 2}).Draw(t, "shape")
			a, b := rapid.IntRange(0, 29).Draw(t, "a"), rapid.IntRange(0, 29).Draw(t, "b")
			pick := func(label string) int {
				return rapid.SampledFrom([]int{-1, a, b}).Draw(t, label)
			}
			var h DMWriterHistory
			n := rapid.IntRange(2, 6).Draw(t, "calls")
			distinct := map[[2]int]bool{}
			for i := 0; i < n; i++ {
				st := DMWriterCase{K: k, Shape: shape, Min: pick("min"), Max: pick("max")}
				distinct[[2]int{st.Min, st.Max}] = true
				h.Steps = append(h.Steps, st)
			}
			raw, _ := json.Marshal(h)
			c.Note("dm_writer_hint_histories", fmt.Sprintf("shape=%d;distinct_hint_pairs=%d", shape, len(distinct)), len(distinct) > 1, hx.Hash(raw), func() any { return h })
			if err := c.Eval("dm_writer_history", h); err != nil {
				t.Fatalf("%v", err)
			}
		})
	})
}
