// C06: decoding is total: any input gives a result or a typed error, never a crash.
package c06

import (
	"encoding/json"
	"errors"
	"fmt"
	"image"
	"image/color"
	"strings"
	"testing"

	"github.com/makiuchi-d/gozxing"
	"github.com/makiuchi-d/gozxing/aztec"
	azdec "github.com/makiuchi-d/gozxing/aztec/decoder"
	azdet "github.com/makiuchi-d/gozxing/aztec/detector"
	"github.com/makiuchi-d/gozxing/datamatrix"
	dmdec "github.com/makiuchi-d/gozxing/datamatrix/decoder"
	mqr "github.com/makiuchi-d/gozxing/multi/qrcode"
	"github.com/makiuchi-d/gozxing/oned"
	"github.com/makiuchi-d/gozxing/oned/rss"
	"github.com/makiuchi-d/gozxing/qrcode"
	qrdec "github.com/makiuchi-d/gozxing/qrcode/decoder"
	"pgregory.net/rapid"

	"verif/internal/azref"
	"verif/internal/dmref"
	"verif/internal/hx"
	"verif/internal/imgx"
	"verif/internal/onedx"
	"verif/internal/qrref"
)

// ------------------------------------------------------------------ hints

type HintSpec struct {
	Pure      bool   `json:"pure,omitempty"`
	TryHarder bool   `json:"try_harder,omitempty"`
	Charset   string `json:"charset,omitempty"`
	Formats   []int  `json:"formats,omitempty"`
	Lengths   []int  `json:"lengths,omitempty"`
	GS1       bool   `json:"gs1,omitempty"`
	Codabar   bool   `json:"codabar_start_end,omitempty"`
	Ext       []int  `json:"ean_ext,omitempty"`
	HasExt    bool   `json:"has_ean_ext,omitempty"`
	Inverted  bool   `json:"also_inverted,omitempty"`
	Callback  bool   `json:"callback,omitempty"`
	Code39Chk bool   `json:"code39_check,omitempty"`
}

func (h HintSpec) build() map[gozxing.DecodeHintType]interface{} {
	m := map[gozxing.DecodeHintType]interface{}{}
	if h.Pure {
		m[gozxing.DecodeHintType_PURE_BARCODE] = true
	}
	if h.TryHarder {
		m[gozxing.DecodeHintType_TRY_HARDER] = true
	}
	if h.Charset != "" {
		m[gozxing.DecodeHintType_CHARACTER_SET] = h.Charset
	}
	if h.Formats != nil {
		fs := make([]gozxing.BarcodeFormat, len(h.Formats))
		for i, f := range h.Formats {
			fs[i] = gozxing.BarcodeFormat(f)
		}
		m[gozxing.DecodeHintType_POSSIBLE_FORMATS] = fs
	}
	if h.Lengths != nil {
		m[gozxing.DecodeHintType_ALLOWED_LENGTHS] = h.Lengths
	}
	if h.GS1 {
		m[gozxing.DecodeHintType_ASSUME_GS1] = true
	}
	if h.Codabar {
		m[gozxing.DecodeHintType_RETURN_CODABAR_START_END] = true
	}
	if h.HasExt {
		m[gozxing.DecodeHintType_ALLOWED_EAN_EXTENSIONS] = h.Ext
	}
	if h.Inverted {
		m[gozxing.DecodeHintType_ALSO_INVERTED] = true
	}
	if h.Callback {
		m[gozxing.DecodeHintType_NEED_RESULT_POINT_CALLBACK] = gozxing.ResultPointCallback(func(gozxing.ResultPoint) {})
	}
	if h.Code39Chk {
		m[gozxing.DecodeHintType_ASSUME_CODE_39_CHECK_DIGIT] = true
	}
	if len(m) == 0 {
		return nil
	}
	return m
}

var charsetHints = []string{"", "", "", "UTF-8", "UTF8", "ISO-8859-1", "ISO8859_1", "Shift_JIS", "SJIS", "GB2312", "EUC_KR", "Cp437", "UTF-16BE", "UnicodeBig",
	"UTF-7", "ISO-2022-JP", "macintosh", "KOI8-R", "ISO-8859-6", "windows-874", "utf-8", "nonsense", " ", "ISO-8859-1\x00"}

func genHints(t *rapid.T) HintSpec {
	var h HintSpec
	if rapid.IntRange(0, 2).Draw(t, "anyhint") == 0 {
		return h
	}
	h.Pure = rapid.IntRange(0, 3).Draw(t, "pure") == 0
	h.TryHarder = rapid.Bool().Draw(t, "th")
	h.Charset = rapid.SampledFrom(charsetHints).Draw(t, "cs")
	if rapid.IntRange(0, 3).Draw(t, "fmts") == 0 {
		n := rapid.IntRange(0, 4).Draw(t, "nf")
		h.Formats = []int{}
		for i := 0; i < n; i++ {
			h.Formats = append(h.Formats, rapid.IntRange(0, 16).Draw(t, "f"))
		}
	}
	if rapid.IntRange(0, 3).Draw(t, "lens") == 0 {
		n := rapid.IntRange(0, 3).Draw(t, "nl")
		h.Lengths = []int{}
		for i := 0; i < n; i++ {
			h.Lengths = append(h.Lengths, rapid.IntRange(-2, 90).Draw(t, "l"))
		}
	}
	h.GS1 = rapid.IntRange(0, 3).Draw(t, "gs1") == 0
	h.Codabar = rapid.IntRange(0, 3).Draw(t, "cb") == 0
	if rapid.IntRange(0, 3).Draw(t, "ext") == 0 {
		h.HasExt = true
		n := rapid.IntRange(0, 3).Draw(t, "ne")
		h.Ext = []int{}
		for i := 0; i < n; i++ {
			h.Ext = append(h.Ext, rapid.SampledFrom([]int{0, 2, 5, 7, -1}).Draw(t, "e"))
		}
	}
	h.Inverted = rapid.IntRange(0, 3).Draw(t, "inv") == 0
	h.Callback = rapid.IntRange(0, 3).Draw(t, "cbk") == 0
	h.Code39Chk = rapid.IntRange(0, 5).Draw(t, "c39") == 0
	return h
}

// ------------------------------------------------------------------ images

type ImgSpec struct {
	Kind    string `json:"kind"` // uniform | noise | gray | gradient | stripes | blocks | squares | symbol:<name>
	W       int    `json:"w"`
	H       int    `json:"h"`
	Seed    uint64 `json:"seed"`
	Type    string `json:"type"`             // gray | rgba | nrgba | paletted | bits
	Flips   int    `json:"flips,omitempty"`  // per-mille of pixels inverted (symbols)
	Invert  bool   `json:"invert,omitempty"` // whole image inverted
	CropPct int    `json:"crop,omitempty"`   // percent cropped from right/bottom
	Resize  bool   `json:"resize,omitempty"` // nearest-neighbour resample of the symbol to W x H
	Rot     int    `json:"rot,omitempty"`    // quarter turns
	Paint   bool   `json:"paint,omitempty"`  // a black rectangle painted over part of the symbol
	Mirror  bool   `json:"mirror,omitempty"` // symbol transposed (mirrored along the diagonal)
	Global  bool   `json:"global_binarizer,omitempty"`
}

func symbolMatrix(name string, rng *hx.Rng) *gozxing.BitMatrix {
	switch name {
	case "QR":
		n := 1 + rng.Intn(60)
		b := make([]byte, n)
		for i := range b {
			b[i] = byte(32 + rng.Intn(95))
		}
		s := 1 + rng.Intn(4)
		bm, err := qrcode.NewQRCodeWriter().Encode(string(b), gozxing.BarcodeFormat_QR_CODE, 40*s, 40*s, nil)
		if err != nil {
			return nil
		}
		return bm
	case "DM":
		n := 1 + rng.Intn(40)
		b := make([]byte, n)
		for i := range b {
			b[i] = byte(32 + rng.Intn(95))
		}
		s := 1 + rng.Intn(5)
		bm, err := datamatrix.NewDataMatrixWriter().Encode(string(b), gozxing.BarcodeFormat_DATA_MATRIX, 0, 0, nil)
		if err != nil {
			return nil
		}
		return imgx.Pad(imgx.Scale(bm, s), 3*s, 3*s, 3*s, 3*s)
	case "AZTEC":
		specs := azref.AllSpecs()
		spec := specs[rng.Intn(12)]
		var toks []azref.Token
		nb := spec.TotalBits() * (20 + rng.Intn(50)) / 100
		if spec.Compact && nb > 64*spec.WordSize()*7/10 {
			nb = 64 * spec.WordSize() * 7 / 10
		}
		for b := 0; b < nb; b += 5 {
			toks = append(toks, azref.Token{Kind: "char", Code: 1 + rng.Intn(27)})
		}
		bits, _, _ := azref.Encode(toks)
		sym, ok := azref.Build(bits, spec, 3)
		if !ok {
			return nil
		}
		bm, _ := gozxing.NewBitMatrix(sym.Size, sym.Size)
		for y := 0; y < sym.Size; y++ {
			for x := 0; x < sym.Size; x++ {
				if sym.M[y][x] {
					bm.Set(x, y)
				}
			}
		}
		s := 2 + rng.Intn(3)
		return imgx.Pad(imgx.Scale(bm, s), 3*s, 3*s, 3*s, 3*s)
	}
	s := onedx.SymByName(name)
	if s == nil {
		return nil
	}
	content, _, _ := onedx.Content(name, rng)
	if len(content) > 16 && name != "ITF" && name != "CODABAR" {
		content = content[:16]
	}
	bm, err := s.Writer().Encode(content, s.Format, 0, 8+rng.Intn(30), map[gozxing.EncodeHintType]interface{}{gozxing.EncodeHintType_MARGIN: 14})
	if err != nil {
		return nil
	}
	return imgx.Scale(bm, 1+rng.Intn(3))
}

// pixels builds the gray-level raster of the image spec.
func pixels(sp ImgSpec) (w, h int, px []byte) {
	rng := hx.NewRng(sp.Seed)
	w, h = sp.W, sp.H
	var sym *gozxing.BitMatrix
	if strings.HasPrefix(sp.Kind, "symbol:") {
		sym = symbolMatrix(sp.Kind[7:], rng)
		if sym != nil {
			if sp.Mirror {
				sym = imgx.Transpose(sym)
			}
			sym = imgx.Rotate(sym, sp.Rot)
			if !sp.Resize {
				w, h = sym.GetWidth(), sym.GetHeight()
			}
		}
	}
	if w < 1 {
		w = 1
	}
	if h < 1 {
		h = 1
	}
	px = make([]byte, w*h)
	switch {
	case sym != nil:
		sw, sh := sym.GetWidth(), sym.GetHeight()
		for y := 0; y < h; y++ {
			for x := 0; x < w; x++ {
				sx, sy := x, y
				if sp.Resize {
					sx, sy = x*sw/w, y*sh/h
				}
				v := byte(255)
				if sym.Get(sx, sy) {
					v = 0
				}
				px[y*w+x] = v
			}
		}
		if sp.Paint {
			x0, y0 := rng.Intn(w), rng.Intn(h)
			x1, y1 := x0+rng.Intn(w/2+1), y0+rng.Intn(h/2+1)
			for y := y0; y < y1 && y < h; y++ {
				for x := x0; x < x1 && x < w; x++ {
					px[y*w+x] = 0
				}
			}
		}
		if sp.Flips > 0 {
			n := w * h * sp.Flips / 1000
			for i := 0; i < n; i++ {
				p := rng.Intn(w * h)
				px[p] = 255 - px[p]
			}
		}
	case sp.Kind == "uniform":
		v := []byte{0, 255, 128, 7}[rng.Intn(4)]
		for i := range px {
			px[i] = v
		}
	case sp.Kind == "noise":
		for i := range px {
			if rng.Bool() {
				px[i] = 255
			}
		}
	case sp.Kind == "gray":
		for i := range px {
			px[i] = byte(rng.U64())
		}
	case sp.Kind == "gradient":
		for y := 0; y < h; y++ {
			for x := 0; x < w; x++ {
				px[y*w+x] = byte((x*255/w + y*3) % 256)
			}
		}
	case sp.Kind == "stripes":
		x := 0
		v := byte(255)
		for x < w {
			l := 1 + rng.Intn(4)
			if rng.Intn(6) == 0 {
				l = 5 + rng.Intn(12)
			}
			for i := 0; i < l && x < w; i++ {
				for y := 0; y < h; y++ {
					px[y*w+x] = v
				}
				x++
			}
			v = 255 - v
		}
	case sp.Kind == "blocks":
		k := 1 + rng.Intn(6)
		bw, bh := w/k+1, h/k+1
		cells := make([]bool, bw*bh)
		for i := range cells {
			cells[i] = rng.Bool()
		}
		for y := 0; y < h; y++ {
			for x := 0; x < w; x++ {
				if !cells[(y/k)*bw+x/k] {
					px[y*w+x] = 255
				}
			}
		}
	default: // squares: nested squares like finder patterns / bull's eyes on white
		for i := range px {
			px[i] = 255
		}
		for n := 0; n < 1+rng.Intn(5); n++ {
			cx, cy := rng.Intn(w), rng.Intn(h)
			m := 1 + rng.Intn(4)
			rings := 2 + rng.Intn(5)
			for y := 0; y < h; y++ {
				for x := 0; x < w; x++ {
					dx, dy := x-cx, y-cy
					if dx < 0 {
						dx = -dx
					}
					if dy < 0 {
						dy = -dy
					}
					d := dx
					if dy > d {
						d = dy
					}
					r := d / m
					if r < rings {
						// 1:1:3:1:1-like rings
						if r%2 == 0 {
							px[y*w+x] = 0
						} else {
							px[y*w+x] = 255
						}
					}
				}
			}
		}
	}
	if sp.Invert {
		for i := range px {
			px[i] = 255 - px[i]
		}
	}
	if sp.CropPct > 0 {
		nw, nh := w*(100-sp.CropPct)/100, h*(100-sp.CropPct)/100
		if nw < 1 {
			nw = 1
		}
		if nh < 1 {
			nh = 1
		}
		np := make([]byte, nw*nh)
		for y := 0; y < nh; y++ {
			copy(np[y*nw:(y+1)*nw], px[y*w:y*w+nw])
		}
		w, h, px = nw, nh, np
	}
	return
}

func buildBitmap(sp ImgSpec) (*gozxing.BinaryBitmap, error) {
	w, h, px := pixels(sp)
	rect := image.Rect(0, 0, w, h)
	var img image.Image
	switch sp.Type {
	case "rgba":
		g := image.NewRGBA(rect)
		for i, v := range px {
			g.Pix[4*i], g.Pix[4*i+1], g.Pix[4*i+2], g.Pix[4*i+3] = v, v, v, 255
		}
		img = g
	case "nrgba":
		g := image.NewNRGBA(rect)
		for i, v := range px {
			a := byte(255)
			if i%7 == 3 {
				a = byte(i)
			}
			g.Pix[4*i], g.Pix[4*i+1], g.Pix[4*i+2], g.Pix[4*i+3] = v, v, byte(int(v)*3/4), a
		}
		img = g
	case "paletted":
		g := image.NewPaletted(rect, color.Palette{color.Gray{0}, color.Gray{255}, color.Gray{100}, color.RGBA{200, 30, 30, 255}})
		for i, v := range px {
			switch {
			case v == 0:
				g.Pix[i] = 0
			case v == 255:
				g.Pix[i] = 1
			default:
				g.Pix[i] = 2 + v%2
			}
		}
		img = g
	case "bits":
		bm, _ := gozxing.NewBitMatrix(w, h)
		for i, v := range px {
			if v < 128 {
				bm.Set(i%w, i/w)
			}
		}
		img = bm
	default:
		g := image.NewGray(rect)
		copy(g.Pix, px)
		img = g
	}
	if sp.Global {
		return gozxing.NewBinaryBitmap(gozxing.NewGlobalHistgramBinarizer(gozxing.NewLuminanceSourceFromImage(img)))
	}
	return gozxing.NewBinaryBitmapFromImage(img)
}

// ---------------------------------------------------------------- readers

type readerEntry struct {
	name string
	mk   func(h map[gozxing.DecodeHintType]interface{}) gozxing.Reader
}

var readers = []readerEntry{
	{"QR", func(map[gozxing.DecodeHintType]interface{}) gozxing.Reader { return qrcode.NewQRCodeReader() }},
	{"DM", func(map[gozxing.DecodeHintType]interface{}) gozxing.Reader { return datamatrix.NewDataMatrixReader() }},
	{"AZTEC", func(map[gozxing.DecodeHintType]interface{}) gozxing.Reader { return aztec.NewAztecReader() }},
	{"EAN13", func(map[gozxing.DecodeHintType]interface{}) gozxing.Reader { return oned.NewEAN13Reader() }},
	{"EAN8", func(map[gozxing.DecodeHintType]interface{}) gozxing.Reader { return oned.NewEAN8Reader() }},
	{"UPCA", func(map[gozxing.DecodeHintType]interface{}) gozxing.Reader { return oned.NewUPCAReader() }},
	{"UPCE", func(map[gozxing.DecodeHintType]interface{}) gozxing.Reader { return oned.NewUPCEReader() }},
	{"UPCEAN_MULTI", func(h map[gozxing.DecodeHintType]interface{}) gozxing.Reader {
		return oned.NewMultiFormatUPCEANReader(h)
	}},
	{"CODE39", func(map[gozxing.DecodeHintType]interface{}) gozxing.Reader { return oned.NewCode39Reader() }},
	{"CODE39_CHECK", func(map[gozxing.DecodeHintType]interface{}) gozxing.Reader {
		return oned.NewCode39ReaderWithCheckDigitFlag(true)
	}},
	{"CODE39_EXT", func(map[gozxing.DecodeHintType]interface{}) gozxing.Reader {
		return oned.NewCode39ReaderWithFlags(true, true)
	}},
	{"CODE39_EXT_NOCHECK", func(map[gozxing.DecodeHintType]interface{}) gozxing.Reader {
		return oned.NewCode39ReaderWithFlags(false, true)
	}},
	{"CODE93", func(map[gozxing.DecodeHintType]interface{}) gozxing.Reader { return oned.NewCode93Reader() }},
	{"CODE128", func(map[gozxing.DecodeHintType]interface{}) gozxing.Reader { return oned.NewCode128Reader() }},
	{"ITF", func(map[gozxing.DecodeHintType]interface{}) gozxing.Reader { return oned.NewITFReader() }},
	{"CODABAR", func(map[gozxing.DecodeHintType]interface{}) gozxing.Reader { return oned.NewCodaBarReader() }},
	{"RSS14", func(map[gozxing.DecodeHintType]interface{}) gozxing.Reader { return rss.NewRSS14Reader() }},
}

func readerByName(n string) *readerEntry {
	for i := range readers {
		if readers[i].name == n {
			return &readers[i]
		}
	}
	return nil
}

func documentedKind(err error) bool {
	var nf gozxing.NotFoundException
	var cs gozxing.ChecksumException
	var fe gozxing.FormatException
	return errors.As(err, &nf) || errors.As(err, &cs) || errors.As(err, &fe)
}

func kindOf(err error) string {
	var nf gozxing.NotFoundException
	var cs gozxing.ChecksumException
	var fe gozxing.FormatException
	switch {
	case err == nil:
		return "decoded"
	case errors.As(err, &cs):
		return "checksum"
	case errors.As(err, &fe):
		return "format"
	case errors.As(err, &nf):
		return "notfound"
	}
	return "other_error"
}

// ------------------------------------------------------------------ cases

type Case struct {
	Family string   `json:"family"` // image | multi | qrmatrix | dmmatrix | azmatrix | qrstream | dmstream | azbits | row
	Reader string   `json:"reader,omitempty"`
	Img    *ImgSpec `json:"img,omitempty"`
	Hints  HintSpec `json:"hints"`
	// matrices
	MW, MH int    `json:"-"`
	Matrix string `json:"matrix,omitempty"` // "w,h,kind,seed"
	Az     []int  `json:"az,omitempty"`     // compact(0/1), layers, datablocks
	// streams
	Bytes   []byte `json:"bytes,omitempty"`
	Version int    `json:"version,omitempty"`
	Level   int    `json:"level,omitempty"`
	Bits    string `json:"bits,omitempty"`
	// rows
	Row    string `json:"row,omitempty"`
	RowNum int    `json:"row_number,omitempty"`
}

var lastOutcome string // classification of the last executed case (single-threaded use)

func matrixFrom(spec string) *gozxing.BitMatrix {
	var w, h int
	var kind string
	var seed uint64
	fmt.Sscanf(spec, "%d,%d,%s", &w, &h, &kind)
	parts := strings.Split(spec, ",")
	if len(parts) == 4 {
		kind = parts[2]
		fmt.Sscanf(parts[3], "%d", &seed)
	}
	rng := hx.NewRng(seed)
	var bm *gozxing.BitMatrix
	if strings.HasPrefix(kind, "frame:QR:") {
		// a structurally valid QR symbol of any version / level / mask (function patterns, format and
		// version information from the reference) whose codewords are random: the decoder gets past
		// the format / version reading and the block splitting, Reed-Solomon then usually fails
		var v, lv, mk int
		fmt.Sscanf(kind[9:], "%d:%d:%d", &v, &lv, &mk)
		if v < 1 || v > 40 {
			v = 1
		}
		cw := make([]byte, qrref.TotalCodewords(v))
		for i := range cw {
			cw[i] = byte(rng.Intn(256))
		}
		m := qrref.Build(cw, v, lv%4, mk%8)
		fm, _ := gozxing.NewBitMatrix(m.N, m.N)
		for y := 0; y < m.N; y++ {
			for x := 0; x < m.N; x++ {
				if m.M[y][x] {
					fm.Set(x, y)
				}
			}
		}
		if rng.Intn(5) == 0 {
			fm = imgx.Transpose(fm)
		}
		return fm
	}
	if strings.HasPrefix(kind, "frame:DM:") {
		// one of the 30 Data Matrix sizes with finder / clock borders from the reference and random codewords
		var si int
		fmt.Sscanf(kind[9:], "%d", &si)
		a := dmref.Sizes[((si%len(dmref.Sizes))+len(dmref.Sizes))%len(dmref.Sizes)]
		cw := make([]byte, a.Data+a.EC)
		for i := range cw {
			cw[i] = byte(rng.Intn(256))
		}
		cells := dmref.BuildSymbol(cw, a)
		fm, _ := gozxing.NewBitMatrix(a.Cols, a.Rows)
		for y := range cells {
			for x := range cells[y] {
				if cells[y][x] {
					fm.Set(x, y)
				}
			}
		}
		return fm
	}
	if strings.HasPrefix(kind, "symbol:") {
		switch kind[7:] {
		case "QR":
			n := 1 + rng.Intn(80)
			b := make([]byte, n)
			for i := range b {
				b[i] = byte(32 + rng.Intn(95))
			}
			bm, _ = qrcode.NewQRCodeWriter().Encode(string(b), gozxing.BarcodeFormat_QR_CODE, 0, 0, map[gozxing.EncodeHintType]interface{}{gozxing.EncodeHintType_MARGIN: 0})
		case "DM":
			n := 1 + rng.Intn(60)
			b := make([]byte, n)
			for i := range b {
				b[i] = byte(32 + rng.Intn(95))
			}
			bm, _ = datamatrix.NewDataMatrixWriter().Encode(string(b), gozxing.BarcodeFormat_DATA_MATRIX, 0, 0, nil)
		}
		if bm != nil {
			// flips
			for i, n := 0, rng.Intn(1+bm.GetWidth()*bm.GetHeight()/8); i < n; i++ {
				bm.Flip(rng.Intn(bm.GetWidth()), rng.Intn(bm.GetHeight()))
			}
			if rng.Intn(4) == 0 {
				bm = imgx.Transpose(bm)
			}
			if rng.Intn(6) == 0 && bm.GetWidth() > 3 {
				// crop to a non-square / odd size
				nw, nh := 1+rng.Intn(bm.GetWidth()), 1+rng.Intn(bm.GetHeight())
				c, _ := gozxing.NewBitMatrix(nw, nh)
				for y := 0; y < nh; y++ {
					for x := 0; x < nw; x++ {
						if bm.Get(x, y) {
							c.Set(x, y)
						}
					}
				}
				bm = c
			}
			return bm
		}
	}
	if w < 1 {
		w = 1
	}
	if h < 1 {
		h = 1
	}
	bm, _ = gozxing.NewBitMatrix(w, h)
	switch kind {
	case "ones":
		for y := 0; y < h; y++ {
			bm.SetRegion(0, y, w, 1)
		}
	case "zeros":
	default:
		for y := 0; y < h; y++ {
			for x := 0; x < w; x++ {
				if rng.Bool() {
					bm.Set(x, y)
				}
			}
		}
	}
	return bm
}

func rowOf(s string) *gozxing.BitArray {
	a := gozxing.NewBitArray(len(s))
	for i := range s {
		if s[i] == '1' {
			a.Set(i)
		}
	}
	return a
}

func check(raw json.RawMessage) error {
	var c Case
	if err := json.Unmarshal(raw, &c); err != nil {
		return fmt.Errorf("hx: %v", err)
	}
	hints := c.Hints.build()
	var resNil bool
	var err error
	imageLevel := false
	desc := ""
	call := func() error { return nil }
	switch c.Family {
	case "image":
		re := readerByName(c.Reader)
		if re == nil || c.Img == nil {
			return fmt.Errorf("hx: bad image case")
		}
		imageLevel = true
		desc = fmt.Sprintf("%s reader on %+v with hints %+v", c.Reader, *c.Img, c.Hints)
		bmp, e := buildBitmap(*c.Img)
		if e != nil {
			return fmt.Errorf("hx: bitmap: %v", e)
		}
		call = func() error {
			r, e := re.mk(hints).Decode(bmp, hints)
			resNil, err = r == nil, e
			return nil
		}
	case "multi":
		desc = fmt.Sprintf("QR multi reader on %+v with hints %+v", *c.Img, c.Hints)
		bmp, e := buildBitmap(*c.Img)
		if e != nil {
			return fmt.Errorf("hx: bitmap: %v", e)
		}
		call = func() error {
			rs, e := mqr.NewQRCodeMultiReader().DecodeMultiple(bmp, hints)
			err = e
			resNil = false
			for _, r := range rs {
				if r == nil {
					return fmt.Errorf("nil entry in the result list")
				}
			}
			if e != nil && !documentedKind(e) {
				return fmt.Errorf("error is not of the not-found / checksum / format kinds: %T %v", e, e)
			}
			resNil = e != nil // list + no error counts as a result
			return nil
		}
	case "qrmatrix", "dmmatrix", "azmatrix":
		bm := matrixFrom(c.Matrix)
		desc = fmt.Sprintf("%s decoder on matrix %s (%dx%d) az=%v hints %+v", c.Family, c.Matrix, bm.GetWidth(), bm.GetHeight(), c.Az, c.Hints)
		call = func() error {
			switch c.Family {
			case "qrmatrix":
				r, e := qrdec.NewDecoder().Decode(bm, hints)
				resNil, err = r == nil, e
			case "dmmatrix":
				r, e := dmdec.NewDecoder().Decode(bm)
				resNil, err = r == nil, e
			default:
				pts := []gozxing.ResultPoint{gozxing.NewResultPoint(0, 0), gozxing.NewResultPoint(1, 0), gozxing.NewResultPoint(1, 1), gozxing.NewResultPoint(0, 1)}
				r, e := azdec.NewDecoder().Decode(azdet.NewAztecDetectorResult(bm, pts, c.Az[0] == 1, c.Az[2], c.Az[1]))
				resNil, err = r == nil, e
			}
			return nil
		}
	case "qrstream":
		ver, e := qrdec.Version_GetVersionForNumber(c.Version)
		if e != nil {
			return fmt.Errorf("hx: version")
		}
		lv := []qrdec.ErrorCorrectionLevel{qrdec.ErrorCorrectionLevel_L, qrdec.ErrorCorrectionLevel_M, qrdec.ErrorCorrectionLevel_Q, qrdec.ErrorCorrectionLevel_H}[c.Level%4]
		desc = fmt.Sprintf("QR bit-stream parser on % x (version %d) hints %+v", c.Bytes, c.Version, c.Hints)
		call = func() error {
			r, e := qrdec.DecodedBitStreamParser_Decode(c.Bytes, ver, lv, hints)
			resNil, err = r == nil, e
			return nil
		}
	case "dmstream":
		desc = fmt.Sprintf("Data Matrix bit-stream parser on %v", c.Bytes)
		call = func() error {
			r, e := dmdec.DecodedBitStreamParser_decode(c.Bytes)
			resNil, err = r == nil, e
			return nil
		}
	case "azbits":
		bits := make([]bool, len(c.Bits))
		for i := range c.Bits {
			bits[i] = c.Bits[i] == '1'
		}
		desc = fmt.Sprintf("Aztec HighLevelDecode on %d bits %s", len(bits), c.Bits)
		call = func() error {
			_, e := azdec.NewDecoder().HighLevelDecode(bits)
			resNil, err = e != nil, e // a string result is always "non-nil"
			return nil
		}
	case "row":
		re := readerByName(c.Reader)
		if re == nil {
			return fmt.Errorf("hx: reader")
		}
		rd, ok := re.mk(hints).(interface {
			DecodeRow(int, *gozxing.BitArray, map[gozxing.DecodeHintType]interface{}) (*gozxing.Result, error)
		})
		if !ok {
			return fmt.Errorf("hx: %s has no DecodeRow", c.Reader)
		}
		row := rowOf(c.Row)
		desc = fmt.Sprintf("%s.DecodeRow(%d, row of %d pixels %s) hints %+v", c.Reader, c.RowNum, len(c.Row), clip(c.Row), c.Hints)
		call = func() error {
			r, e := rd.DecodeRow(c.RowNum, row, hints)
			resNil, err = r == nil, e
			return nil
		}
	default:
		return fmt.Errorf("hx: family %q", c.Family)
	}
	if e := hx.Watch(desc, call); e != nil {
		lastOutcome = "failed"
		if hx.IsPanic(e) {
			return fmt.Errorf("PANIC in %s: %v", desc, e)
		}
		return fmt.Errorf("%v [%s]", e, desc)
	}
	lastOutcome = kindOf(err)
	if resNil && err == nil {
		return fmt.Errorf("neither result nor error returned [%s]", desc)
	}
	if !resNil && err != nil && c.Family != "multi" {
		return fmt.Errorf("both a result and an error (%v) returned [%s]", err, desc)
	}
	if imageLevel && err != nil && !documentedKind(err) {
		return fmt.Errorf("error of an image-level reader is not of the not-found / checksum / format kinds: %T %v [%s]", err, err, desc)
	}
	return nil
}

func clip(s string) string {
	if len(s) > 70 {
		return s[:70] + "..."
	}
	return s
}

// ---------------------------------------------------------------- generators

var imgKinds = []string{"uniform", "noise", "gray", "gradient", "stripes", "blocks", "squares"}
var symKinds = []string{"QR", "DM", "AZTEC", "EAN13", "EAN8", "UPCA", "UPCE", "ITF", "CODE39", "CODE39X", "CODE93", "CODE128", "CODABAR"}

func genImg(t *rapid.T, prefer string) ImgSpec {
	sp := ImgSpec{Seed: rapid.Uint64().Draw(t, "imgseed"), Type: rapid.SampledFrom([]string{"gray", "gray", "rgba", "nrgba", "paletted", "bits"}).Draw(t, "imgtype")}
	if rapid.IntRange(0, 9).Draw(t, "symbolic") < 6 {
		k := prefer
		if k == "" || rapid.IntRange(0, 4).Draw(t, "othersym") == 0 {
			k = rapid.SampledFrom(symKinds).Draw(t, "symkind")
		}
		sp.Kind = "symbol:" + k
		sp.Rot = rapid.SampledFrom([]int{0, 0, 0, 1, 2, 3}).Draw(t, "rot")
		sp.Mirror = rapid.IntRange(0, 4).Draw(t, "mirror") == 0
		if sp.Mirror && rapid.Bool().Draw(t, "cleanmirror") {
			// a clean mirrored symbol (the mirrored second pass of the decoder must succeed)
			sp.Rot = 0
			sp.Global = rapid.Bool().Draw(t, "global0")
			return sp
		}
		switch rapid.IntRange(0, 6).Draw(t, "mut") {
		case 0:
		case 1:
			sp.Flips = rapid.IntRange(1, 80).Draw(t, "flips")
		case 2:
			sp.CropPct = rapid.IntRange(1, 70).Draw(t, "crop")
		case 3:
			sp.Paint = true
		case 4:
			sp.Resize = true
			sp.W, sp.H = rapid.IntRange(1, 240).Draw(t, "rw"), rapid.IntRange(1, 240).Draw(t, "rh")
		case 5:
			sp.Invert = true
		default:
			sp.Flips = rapid.IntRange(1, 30).Draw(t, "flips2")
			sp.CropPct = rapid.IntRange(1, 30).Draw(t, "crop2")
		}
	} else {
		sp.Kind = rapid.SampledFrom(imgKinds).Draw(t, "imgkind")
		if rapid.IntRange(0, 3).Draw(t, "tiny") == 0 {
			sp.W, sp.H = rapid.IntRange(1, 12).Draw(t, "w"), rapid.IntRange(1, 12).Draw(t, "h")
		} else {
			sp.W, sp.H = rapid.IntRange(1, 240).Draw(t, "w"), rapid.IntRange(1, 240).Draw(t, "h")
		}
		sp.Invert = rapid.IntRange(0, 5).Draw(t, "inv") == 0
	}
	sp.Global = rapid.IntRange(0, 3).Draw(t, "global") == 0
	return sp
}

func preferredSymbol(reader string) string {
	switch reader {
	case "QR":
		return "QR"
	case "DM":
		return "DM"
	case "AZTEC":
		return "AZTEC"
	case "UPCEAN_MULTI":
		return []string{"EAN13", "EAN8", "UPCA", "UPCE"}[len(reader)%4]
	case "CODE39", "CODE39_CHECK":
		return "CODE39"
	case "CODE39_EXT", "CODE39_EXT_NOCHECK":
		return "CODE39X"
	case "RSS14":
		return "CODE128"
	}
	return reader
}

// charMutatedRow: see genRow. Works for the fixed-width symbologies.
func charMutatedRow(t *rapid.T, sym string) string {
	w, tail := 0, 0
	switch sym {
	case "CODE39", "CODE39X":
		w, tail = 13, 12
	case "CODE93":
		w, tail = 9, 10
	case "CODE128":
		w, tail = 11, 13
	default:
		return ""
	}
	rng := hx.NewRng(rapid.Uint64().Draw(t, "rowseed"))
	bm := symbolMatrix(sym, rng)
	if bm == nil || bm.GetHeight() == 0 {
		return ""
	}
	var sb strings.Builder
	for x := 0; x < bm.GetWidth(); x++ {
		if bm.Get(x, 0) {
			sb.WriteByte('1')
		} else {
			sb.WriteByte('0')
		}
	}
	row := sb.String()
	body := strings.Trim(row, "0")
	if len(body) < w+tail || (len(body)-w-tail)%w != 0 {
		return ""
	}
	var mids []string
	for i := w; i < len(body)-tail; i += w {
		mids = append(mids, body[i:i+w])
	}
	n := rapid.IntRange(0, len(mids)+2).Draw(t, "nchars")
	if rapid.IntRange(0, 3).Draw(t, "fewchars") == 0 {
		n = rapid.IntRange(0, 2).Draw(t, "nchars2")
	}
	out := strings.Repeat("0", 10) + body[:w]
	for i := 0; i < n && len(mids) > 0; i++ {
		out += mids[rapid.IntRange(0, len(mids)-1).Draw(t, "pick")]
	}
	return out + body[len(body)-tail:] + strings.Repeat("0", 10)
}

// QR stream grammar
func genQRStream(t *rapid.T, version int) []byte {
	var bits []bool
	put := func(v, n int) {
		for i := n - 1; i >= 0; i-- {
			bits = append(bits, (v>>uint(i))&1 == 1)
		}
	}
	if rapid.Bool().Draw(t, "wellformed") {
		// well-formed segments (count fields of the right width for the version, payload of exactly
		// the announced length), with FNC1 markers and the characters the post-processing looks at
		cls := 0
		if version >= 27 {
			cls = 2
		} else if version >= 10 {
			cls = 1
		}
		nseg := rapid.IntRange(1, 4).Draw(t, "wnseg")
		for sg := 0; sg < nseg; sg++ {
			switch rapid.IntRange(0, 7).Draw(t, "wmode") {
			case 0: // FNC1 first position
				put(5, 4)
			case 1: // FNC1 second position (+ application indicator)
				put(9, 4)
				if rapid.Bool().Draw(t, "appind") {
					put(rapid.IntRange(0, 255).Draw(t, "ai"), 8)
				}
			case 2: // numeric
				n := rapid.IntRange(0, 12).Draw(t, "nn")
				put(1, 4)
				put(n, []int{10, 12, 14}[cls])
				for i := 0; i+3 <= n; i += 3 {
					put(rapid.IntRange(0, 999).Draw(t, "d3"), 10)
				}
				if n%3 == 2 {
					put(rapid.IntRange(0, 99).Draw(t, "d2"), 7)
				} else if n%3 == 1 {
					put(rapid.IntRange(0, 9).Draw(t, "d1"), 4)
				}
			case 3, 4, 5: // alphanumeric, '%' (value 38) over-weighted, also as the very last character
				n := rapid.IntRange(0, 9).Draw(t, "an")
				vals := make([]int, n)
				for i := range vals {
					vals[i] = rapid.SampledFrom([]int{38, 38, 0, 10, 36, 44, 37, 43}).Draw(t, "av")
					if rapid.Bool().Draw(t, "avr") {
						vals[i] = rapid.IntRange(0, 44).Draw(t, "avv")
					}
				}
				if n > 0 && rapid.IntRange(0, 2).Draw(t, "pctlast") == 0 {
					vals[n-1] = 38
				}
				put(2, 4)
				put(n, []int{9, 11, 13}[cls])
				for i := 0; i+2 <= n; i += 2 {
					put(vals[i]*45+vals[i+1], 11)
				}
				if n%2 == 1 {
					put(vals[n-1], 6)
				}
			case 6: // byte
				n := rapid.IntRange(0, 8).Draw(t, "bn")
				put(4, 4)
				put(n, []int{8, 16, 16}[cls])
				// byte-order-mark prefixes of every length are what the charset guesser looks at first
				bom := rapid.SampledFrom([][]int{nil, nil, {0xEF, 0xBB, 0xBF}, {0xFE, 0xFF}, {0xFF, 0xFE}}).Draw(t, "bom")
				if len(bom) > n {
					bom = bom[:n]
				}
				for i := 0; i < n; i++ {
					if i < len(bom) {
						put(bom[i], 8)
						continue
					}
					put(rapid.SampledFrom([]int{0x25, 0x1D, 0x41, 0xE9, 0x83, 0x00, 0xEF, 0xBB, 0xBF}).Draw(t, "bv"), 8)
				}
			default: // kanji
				n := rapid.IntRange(0, 4).Draw(t, "kn")
				put(8, 4)
				put(n, []int{8, 10, 12}[cls])
				for i := 0; i < n; i++ {
					put(rapid.IntRange(0, 0x1FFF).Draw(t, "kv"), 13)
				}
			}
		}
		if rapid.Bool().Draw(t, "wterm") {
			put(0, 4)
		}
		out := make([]byte, (len(bits)+7)/8)
		for i, b := range bits {
			if b {
				out[i/8] |= 0x80 >> uint(i%8)
			}
		}
		return out
	}
	nseg := rapid.IntRange(0, 5).Draw(t, "nseg")
	for s := 0; s < nseg; s++ {
		mode := rapid.IntRange(0, 15).Draw(t, "mode")
		put(mode, 4)
		switch mode {
		case 7: // ECI
			v := rapid.SampledFrom([]int{0, 1, 3, 20, 25, 26, 27, 30, 31, 127, 128, 170, 899, 900, 16383, 16384, 999999, 8, 10, 19}).Draw(t, "eci")
			if rapid.Bool().Draw(t, "ecirand") {
				v = rapid.IntRange(0, 999999).Draw(t, "eciv")
			}
			switch {
			case v < 128 && rapid.IntRange(0, 3).Draw(t, "form") != 0:
				put(v, 8)
			case v < 16384 && rapid.Bool().Draw(t, "form2"):
				put(0x8000|v, 16)
			default:
				put(0xC00000|v, 24)
			}
		case 3: // structured append
			put(rapid.IntRange(0, 255).Draw(t, "sa1"), 8)
			put(rapid.IntRange(0, 255).Draw(t, "sa2"), 8)
		case 5, 9, 0:
		case 13: // hanzi
			put(rapid.IntRange(0, 3).Draw(t, "subset"), 4)
			fallthrough
		default:
			cb := rapid.SampledFrom([]int{8, 9, 10, 11, 12, 13, 14, 16}).Draw(t, "cbits")
			count := rapid.IntRange(0, 40).Draw(t, "count")
			if rapid.IntRange(0, 5).Draw(t, "hugecount") == 0 {
				count = (1 << uint(cb)) - 1 - rapid.IntRange(0, 3).Draw(t, "hc")
			}
			put(count, cb)
			pay := rapid.IntRange(0, 14*count+8).Draw(t, "paybits")
			if pay > 600 {
				pay = 600
			}
			for i := 0; i < pay; i += 8 {
				put(rapid.IntRange(0, 255).Draw(t, "b"), 8)
			}
		}
	}
	if rapid.Bool().Draw(t, "terminator") {
		put(0, 4)
	}
	// truncation at an arbitrary bit
	if len(bits) > 0 && rapid.IntRange(0, 3).Draw(t, "trunc") == 0 {
		bits = bits[:rapid.IntRange(0, len(bits)).Draw(t, "cut")]
	}
	out := make([]byte, (len(bits)+7)/8)
	for i, b := range bits {
		if b {
			out[i/8] |= 0x80 >> uint(i%8)
		}
	}
	return out
}

func genRow(t *rapid.T, reader string) string {
	n := rapid.IntRange(1, 600).Draw(t, "rowlen")
	if rapid.IntRange(0, 3).Draw(t, "shortrow") == 0 {
		n = rapid.IntRange(1, 40).Draw(t, "rowlen2")
	}
	kind := rapid.IntRange(0, 5).Draw(t, "rowkind")
	if kind == 5 {
		// a valid symbol re-assembled from its own characters: start and stop kept, the characters
		// between them dropped, repeated or reordered (down to none at all)
		if s := charMutatedRow(t, preferredSymbol(reader)); s != "" {
			return s
		}
		kind = 3
	}
	if kind >= 3 {
		// a valid symbol row with run-length jitter
		rng := hx.NewRng(rapid.Uint64().Draw(t, "rowseed"))
		bm := symbolMatrix(preferredSymbol(reader), rng)
		if bm != nil && bm.GetHeight() > 0 && preferredSymbol(reader) != "QR" && preferredSymbol(reader) != "DM" && preferredSymbol(reader) != "AZTEC" {
			var sb strings.Builder
			for x := 0; x < bm.GetWidth(); x++ {
				c := byte('0')
				if bm.Get(x, 0) {
					c = '1'
				}
				rep := 1
				switch rng.Intn(12) {
				case 0:
					rep = 2
				case 1:
					rep = 0
				}
				for i := 0; i < rep; i++ {
					sb.WriteByte(c)
				}
			}
			s := sb.String()
			if len(s) > 0 {
				if kind == 4 {
					s = s[:1+rng.Intn(len(s))] // truncated mid-symbol
				}
				return s
			}
		}
	}
	b := make([]byte, n)
	switch kind {
	case 0:
		for i := range b {
			b[i] = byte('0' + rapid.IntRange(0, 1).Draw(t, "px"))
		}
	case 1: // periodic
		p := rapid.IntRange(1, 9).Draw(t, "period")
		for i := range b {
			b[i] = byte('0' + (i/p)%2)
		}
	default: // runs
		cur := byte('0')
		for i := 0; i < n; {
			l := rapid.IntRange(1, 6).Draw(t, "run")
			for j := 0; j < l && i < n; j++ {
				b[i] = cur
				i++
			}
			cur ^= 1
		}
	}
	return string(b)
}

func TestCheck(t *testing.T) {
	hx.Main(t, "C06", func(c *hx.Ctx) {
		c.Register("decode_total", check)
	}, func(c *hx.Ctx) {
		run := func(sub string, n int, gen func(t *rapid.T) (Case, string)) {
			c.Rapid(sub, n, func(t *rapid.T) {
				cs, cl := gen(t)
				raw, _ := json.Marshal(cs)
				lastOutcome = "skipped"
				err := c.Eval("decode_total", cs)
				// non-trivial: the input got past the first rejection
				nt := lastOutcome == "decoded" || lastOutcome == "checksum" || lastOutcome == "format" || lastOutcome == "failed"
				c.Note(sub, cl+";outcome="+lastOutcome, nt, hx.Hash(raw), func() any { return cs })
				if err != nil {
					t.Fatalf("%v", err)
				}
			})
		}
		// (i) image-level readers
		for ri := range readers {
			re := readers[ri]
			sub := "image_" + re.name
			c.RapidIdx(sub, ri, c.N(110, 1500), 0, func(t *rapid.T) {
				img := genImg(t, preferredSymbol(re.name))
				cs := Case{Family: "image", Reader: re.name, Img: &img, Hints: genHints(t)}
				if img.Mirror && rapid.Bool().Draw(t, "puremirror") {
					cs.Hints.Pure = true
				}
				raw, _ := json.Marshal(cs)
				lastOutcome = "skipped"
				err := c.Eval("decode_total", cs)
				nt := lastOutcome != "notfound" && lastOutcome != "skipped"
				cl := "kind=" + img.Kind + ";type=" + img.Type
				if strings.HasPrefix(img.Kind, "symbol:") {
					cl = "kind=symbol;type=" + img.Type
				}
				c.Note(sub, cl+";outcome="+lastOutcome, nt, hx.Hash(raw), func() any { return cs })
				if err != nil {
					t.Fatalf("%v", err)
				}
			})
		}
		run("image_QR_MULTI", c.N(150, 1500), func(t *rapid.T) (Case, string) {
			img := genImg(t, "QR")
			return Case{Family: "multi", Img: &img, Hints: genHints(t)}, "kind=" + strings.SplitN(img.Kind, ":", 2)[0]
		})
		// (ii) matrix-level decoders
		genMatrix := func(t *rapid.T, symbol string) string {
			kind := rapid.SampledFrom([]string{"noise", "noise", "ones", "zeros", "symbol:" + symbol, "symbol:" + symbol, "symbol:" + symbol, "frame", "frame"}).Draw(t, "mkind")
			if kind == "frame" {
				kind = "noise"
				if symbol == "QR" {
					kind = fmt.Sprintf("frame:QR:%d:%d:%d", rapid.IntRange(1, 40).Draw(t, "fv"), rapid.IntRange(0, 3).Draw(t, "fl"), rapid.IntRange(0, 7).Draw(t, "fm"))
				} else if symbol == "DM" {
					kind = fmt.Sprintf("frame:DM:%d", rapid.IntRange(0, 29).Draw(t, "fs"))
				}
			}
			w, h := rapid.IntRange(1, 200).Draw(t, "mw"), rapid.IntRange(1, 200).Draw(t, "mh")
			switch rapid.IntRange(0, 3).Draw(t, "shape") {
			case 0:
				h = w
			case 1:
				w = 17 + 4*rapid.IntRange(1, 40).Draw(t, "ver") // QR dimension
				h = w
				if rapid.IntRange(0, 4).Draw(t, "nonsq") == 0 {
					h = rapid.IntRange(1, 200).Draw(t, "mh2")
				}
			case 2:
				w, h = 2*rapid.IntRange(1, 80).Draw(t, "ew"), 2*rapid.IntRange(1, 80).Draw(t, "eh")
			}
			return fmt.Sprintf("%d,%d,%s,%d", w, h, kind, rapid.Uint64().Draw(t, "mseed"))
		}
		// every (version, level) block layout is walked at least once: structurally valid symbols
		// with random codewords
		{
			idx := 0
			for v := 1; v <= 40; v++ {
				for lv := 0; lv < 4; lv++ {
					for rep := 0; rep < 2; rep++ {
						idx++
						if !c.Mine(idx) {
							continue
						}
						cs := Case{Family: "qrmatrix", Matrix: fmt.Sprintf("0,0,frame:QR:%d:%d:%d,%d", v, lv, (v+lv+rep*3)%8, uint64(idx)*7919+uint64(c.P.Seed))}
						c.Note("matrix_QR_all_versions_levels", fmt.Sprintf("level=%d", lv), true, hx.HashS("frame", cs.Matrix), func() any { return cs })
						if !c.Enum("matrix_QR_all_versions_levels", "decode_total", cs, nil) {
							break
						}
					}
				}
			}
			c.SetExhaustive("matrix_QR_all_versions_levels", true)
			for si := 0; si < 30; si++ {
				for rep := 0; rep < 4; rep++ {
					idx++
					if !c.Mine(idx) {
						continue
					}
					cs := Case{Family: "dmmatrix", Matrix: fmt.Sprintf("0,0,frame:DM:%d,%d", si, uint64(idx)*104729+uint64(c.P.Seed))}
					c.Note("matrix_DM_all_sizes", "", true, hx.HashS("frame", cs.Matrix), func() any { return cs })
					if !c.Enum("matrix_DM_all_sizes", "decode_total", cs, nil) {
						break
					}
				}
			}
			c.SetExhaustive("matrix_DM_all_sizes", true)
		}
		run("matrix_QR", c.N(700, 24000), func(t *rapid.T) (Case, string) {
			m := genMatrix(t, "QR")
			return Case{Family: "qrmatrix", Matrix: m, Hints: genHints(t)}, "matrix=" + strings.SplitN(strings.Split(m, ",")[2], ":", 3)[0]
		})
		run("matrix_DM", c.N(700, 24000), func(t *rapid.T) (Case, string) {
			m := genMatrix(t, "DM")
			return Case{Family: "dmmatrix", Matrix: m}, "matrix=" + strings.SplitN(strings.Split(m, ",")[2], ":", 3)[0]
		})
		run("matrix_AZTEC", c.N(500, 18000), func(t *rapid.T) (Case, string) {
			compact := rapid.Bool().Draw(t, "compact")
			layers := rapid.IntRange(1, 32).Draw(t, "layers")
			maxBlocks := 2048
			if compact {
				layers = rapid.IntRange(1, 4).Draw(t, "clayers")
				maxBlocks = 64
			}
			spec := azref.Spec{Compact: compact, Layers: layers}
			size := 14 + 4*layers
			if compact {
				size = 11 + 4*layers
			} else {
				size = size + 1 + 2*((size/2-1)/15)
			}
			w, h := size, size
			if rapid.IntRange(0, 4).Draw(t, "wrongsize") == 0 {
				w, h = rapid.IntRange(1, 160).Draw(t, "w"), rapid.IntRange(1, 160).Draw(t, "h")
			}
			_ = spec
			cz := 0
			if compact {
				cz = 1
			}
			m := fmt.Sprintf("%d,%d,%s,%d", w, h, rapid.SampledFrom([]string{"noise", "ones", "zeros"}).Draw(t, "mkind"), rapid.Uint64().Draw(t, "mseed"))
			return Case{Family: "azmatrix", Matrix: m, Az: []int{cz, layers, rapid.IntRange(1, maxBlocks).Draw(t, "blocks")}}, fmt.Sprintf("compact=%v", compact)
		})
		// (iii) bit-stream parsers
		run("stream_QR", c.N(2500, 90000), func(t *rapid.T) (Case, string) {
			v := rapid.SampledFrom([]int{1, 5, 9, 10, 20, 26, 27, 33, 40}).Draw(t, "v")
			return Case{Family: "qrstream", Bytes: genQRStream(t, v), Version: v, Level: rapid.IntRange(0, 3).Draw(t, "lv"), Hints: genHints(t)}, ""
		})
		run("stream_DM", c.N(2500, 90000), func(t *rapid.T) (Case, string) {
			n := rapid.IntRange(0, 60).Draw(t, "n")
			b := make([]byte, n)
			mode := rapid.IntRange(0, 3).Draw(t, "bmode")
			for i := range b {
				switch mode {
				case 0:
					b[i] = byte(rapid.IntRange(0, 255).Draw(t, "b"))
				case 1: // mostly latches and shifts
					b[i] = rapid.SampledFrom([]byte{230, 231, 232, 233, 234, 235, 236, 237, 238, 239, 240, 241, 254, 129, 0, 1, 66, 142}).Draw(t, "lb")
				default:
					if i == 0 {
						b[i] = rapid.SampledFrom([]byte{230, 231, 238, 239, 240, 241}).Draw(t, "latch")
					} else {
						b[i] = byte(rapid.IntRange(0, 255).Draw(t, "b2"))
					}
				}
			}
			return Case{Family: "dmstream", Bytes: b}, fmt.Sprintf("mode=%d", mode)
		})
		run("bits_AZTEC", c.N(2500, 90000), func(t *rapid.T) (Case, string) {
			n := rapid.IntRange(0, 400).Draw(t, "n")
			if rapid.IntRange(0, 3).Draw(t, "tiny") == 0 {
				n = rapid.IntRange(0, 12).Draw(t, "ntiny")
			}
			var sb strings.Builder
			if rapid.IntRange(0, 2).Draw(t, "flg") == 0 {
				// M/L P/L FLG(n) digits...
				sb.WriteString("11101" + "11110" + "00000")
				fl := rapid.IntRange(0, 7).Draw(t, "flgn")
				sb.WriteString(fmt.Sprintf("%03b", fl))
				for i := 0; i < fl; i++ {
					sb.WriteString(fmt.Sprintf("%04b", rapid.IntRange(0, 15).Draw(t, "digit")))
				}
			}
			for sb.Len() < n {
				sb.WriteByte(byte('0' + rapid.IntRange(0, 1).Draw(t, "bit")))
			}
			return Case{Family: "azbits", Bits: sb.String()}, ""
		})
		// (iv) row decoders
		for ri := range readers {
			re := readers[ri]
			if re.name == "QR" || re.name == "DM" || re.name == "AZTEC" {
				continue
			}
			sub := "row_" + re.name
			c.RapidIdx(sub, ri, c.N(700, 6000), 0, func(t *rapid.T) {
				cs := Case{Family: "row", Reader: re.name, Row: genRow(t, re.name), RowNum: rapid.IntRange(0, 50).Draw(t, "rownum"), Hints: genHints(t)}
				raw, _ := json.Marshal(cs)
				lastOutcome = "skipped"
				err := c.Eval("decode_total", cs)
				nt := lastOutcome != "notfound" && lastOutcome != "skipped"
				c.Note(sub, "outcome="+lastOutcome, nt, hx.Hash(raw), func() any { return cs })
				if err != nil {
					t.Fatalf("%v", err)
				}
			})
		}
	})
}
