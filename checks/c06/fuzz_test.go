package c06

import (
	"encoding/json"
	"testing"
)

// Native coverage-guided fuzz targets (thorough tier). The oracle is the same
// totality check as in TestCheck; the saved crasher is the reproducible unit.

func fuzzCase(t *testing.T, c Case) {
	raw, _ := json.Marshal(c)
	if err := check(raw); err != nil {
		t.Fatalf("%v", err)
	}
}

func FuzzQRStream(f *testing.F) {
	f.Add([]byte{0x40, 0x18, 0xb1, 0x40}, uint8(5), uint8(0), uint8(0))
	f.Add([]byte{0x70, 0x14, 0x01, 0x61}, uint8(1), uint8(1), uint8(3))
	f.Add([]byte{0x80, 0x20, 0x00, 0xD1, 0x00}, uint8(40), uint8(2), uint8(5))
	f.Add([]byte{0x10, 0x20, 0x0c, 0x56, 0x61, 0x80}, uint8(10), uint8(3), uint8(1))
	f.Fuzz(func(t *testing.T, b []byte, version, level, cs uint8) {
		if len(b) > 3000 {
			return
		}
		h := HintSpec{Charset: charsetHints[int(cs)%len(charsetHints)]}
		fuzzCase(t, Case{Family: "qrstream", Bytes: b, Version: 1 + int(version)%40, Level: int(level) % 4, Hints: h})
	})
}

func FuzzDMStream(f *testing.F) {
	f.Add([]byte{230, 87, 169, 254, 239, 87, 169})
	f.Add([]byte{238, 7, 48, 254, 240, 0xa9, 0x57, 0xc0, 231, 219, 208, 233, 253, 34, 129})
	f.Add([]byte{236, 235, 48, 129})
	f.Add([]byte{241, 27, 66})
	f.Fuzz(func(t *testing.T, b []byte) {
		if len(b) > 3000 {
			return
		}
		fuzzCase(t, Case{Family: "dmstream", Bytes: b})
	})
}

func FuzzAztecBits(f *testing.F) {
	f.Add([]byte{0xff, 0x00, 0x12}, uint16(20))
	f.Add([]byte{0xed, 0xf0, 0x04, 0x40}, uint16(30))
	f.Add([]byte{0xf8, 0x00}, uint16(16))
	f.Fuzz(func(t *testing.T, b []byte, n uint16) {
		if len(b) > 600 {
			return
		}
		bits := make([]byte, 0, 8*len(b))
		for i := 0; i < 8*len(b) && i < int(n); i++ {
			if b[i/8]&(0x80>>uint(i%8)) != 0 {
				bits = append(bits, '1')
			} else {
				bits = append(bits, '0')
			}
		}
		fuzzCase(t, Case{Family: "azbits", Bits: string(bits)})
	})
}

func FuzzRows(f *testing.F) {
	f.Add([]byte{0xaa, 0x55, 0x0f, 0xf0, 0x33}, uint16(40), uint8(3))
	f.Add([]byte{0x00, 0xff, 0xa5, 0x5a, 0x99, 0x66, 0x3c}, uint16(56), uint8(13))
	f.Fuzz(func(t *testing.T, b []byte, n uint16, reader uint8) {
		if len(b) > 200 || len(b) == 0 {
			return
		}
		row := make([]byte, 0, 8*len(b))
		for i := 0; i < 8*len(b) && i < int(n); i++ {
			if b[i/8]&(0x80>>uint(i%8)) != 0 {
				row = append(row, '1')
			} else {
				row = append(row, '0')
			}
		}
		if len(row) == 0 {
			return
		}
		re := readers[3+int(reader)%(len(readers)-3)]
		fuzzCase(t, Case{Family: "row", Reader: re.name, Row: string(row)})
	})
}
