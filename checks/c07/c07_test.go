// C07: QR symbols conform to ISO/IEC 18004 (independent reference construction).
package c07

import (
	"encoding/json"
	"fmt"
	"testing"

	"github.com/makiuchi-d/gozxing"
	"github.com/makiuchi-d/gozxing/qrcode/decoder"
	"github.com/makiuchi-d/gozxing/qrcode/encoder"
	"pgregory.net/rapid"

	"verif/internal/hx"
	"verif/internal/qrref"
	"verif/internal/qrx"
)

// SymCase: a symbol built from text with forced version / level / mask.
type SymCase struct {
	V       int    `json:"v"`
	Level   int    `json:"level"`
	Mask    int    `json:"mask"`
	Mode    int    `json:"mode"`
	Text    string `json:"text"`
	Charset string `json:"charset,omitempty"` // "", "Shift_JIS", "ISO-8859-1"
	GS1     bool   `json:"gs1,omitempty"`
}

func diffMatrix(lib *encoder.ByteMatrix, ref *qrref.Matrix) error {
	if lib.GetWidth() != ref.N || lib.GetHeight() != ref.N {
		return fmt.Errorf("matrix size %dx%d, reference %d", lib.GetWidth(), lib.GetHeight(), ref.N)
	}
	n := 0
	var first string
	for y := 0; y < ref.N; y++ {
		for x := 0; x < ref.N; x++ {
			v := lib.Get(x, y)
			want := int8(0)
			if ref.M[y][x] {
				want = 1
			}
			if v != want {
				if n == 0 {
					kind := "data"
					if ref.F[y][x] {
						kind = "function"
					}
					first = fmt.Sprintf("first at (x=%d,y=%d): lib %d, reference %d (%s module)", x, y, v, want, kind)
				}
				n++
			}
		}
	}
	if n > 0 {
		return fmt.Errorf("%d modules differ from the reference construction; %s", n, first)
	}
	return nil
}

func checkSym(raw json.RawMessage) error {
	var c SymCase
	if err := json.Unmarshal(raw, &c); err != nil {
		return fmt.Errorf("hx: %v", err)
	}
	seg := qrref.Segment{Mode: c.Mode, ECI: -1, FNC1: c.GS1}
	hints := map[gozxing.EncodeHintType]interface{}{
		gozxing.EncodeHintType_QR_VERSION:      c.V,
		gozxing.EncodeHintType_QR_MASK_PATTERN: c.Mask,
	}
	if c.GS1 {
		hints[gozxing.EncodeHintType_GS1_FORMAT] = true
	}
	switch c.Mode {
	case qrref.Kanji:
		b, err := qrx.SJIS(c.Text)
		if err != nil {
			return fmt.Errorf("hx: sjis: %v", err)
		}
		seg.Data = b
		hints[gozxing.EncodeHintType_CHARACTER_SET] = "Shift_JIS"
	case qrref.Byte:
		seg.Data = []byte(c.Text)
		if c.Charset == "ISO-8859-1" {
			lat := make([]byte, 0, len(c.Text))
			for _, r := range c.Text {
				lat = append(lat, byte(r))
			}
			seg.Data = lat
			seg.ECI = 1 // ISO-8859-1 is ECI 000001 (000003 also designates it)
			hints[gozxing.EncodeHintType_CHARACTER_SET] = "ISO-8859-1"
		}
	default:
		seg.Data = []byte(c.Text)
	}
	ref, err := qrref.Encode(seg, c.V, c.Level, c.Mask)
	if err != nil {
		return fmt.Errorf("hx: reference: %v", err)
	}
	code, e := encoder.Encoder_encode(c.Text, qrx.LibLevel(c.Level), hints)
	if e != nil {
		return fmt.Errorf("Encoder_encode failed for content that fits by the standard's capacity (v=%d %s, %d chars %s): %v", c.V, qrref.LevelNames[c.Level], seg.NumChars(), qrref.ModeNames[c.Mode], e)
	}
	if code.GetVersion().GetVersionNumber() != c.V || code.GetMaskPattern() != c.Mask || qrx.LevelIndex(code.GetECLevel()) != c.Level {
		return fmt.Errorf("QRCode reports v=%d mask=%d level=%v, forced v=%d mask=%d level=%s", code.GetVersion().GetVersionNumber(), code.GetMaskPattern(), code.GetECLevel(), c.V, c.Mask, qrref.LevelNames[c.Level])
	}
	if c.Mode == qrref.Byte && seg.ECI == 1 {
		// the standard allows 000003 as well: accept the library's choice if it is 3
		if err := diffMatrix(code.GetMatrix(), ref); err != nil {
			seg.ECI = 3
			ref3, _ := qrref.Encode(seg, c.V, c.Level, c.Mask)
			if diffMatrix(code.GetMatrix(), ref3) == nil {
				return nil
			}
			return err
		}
		return nil
	}
	return diffMatrix(code.GetMatrix(), ref)
}

// RawCase: final codeword stream placed by MatrixUtil_buildMatrix.
type RawCase struct {
	V     int    `json:"v"`
	Level int    `json:"level"`
	Mask  int    `json:"mask"`
	Kind  string `json:"kind"`
	Seed  uint64 `json:"seed"`
}

func rawStream(c RawCase) []byte {
	t := qrref.TotalCodewords(c.V)
	out := make([]byte, t)
	rng := hx.NewRng(c.Seed)
	switch c.Kind {
	case "zero":
	case "ones":
		for i := range out {
			out[i] = 0xFF
		}
	case "single":
		out[rng.Intn(t)] = 1 << uint(rng.Intn(8))
	case "ramp":
		for i := range out {
			out[i] = byte(i)
		}
	default:
		for i := range out {
			out[i] = byte(rng.U64())
		}
	}
	return out
}

func checkRaw(raw json.RawMessage) error {
	var c RawCase
	if err := json.Unmarshal(raw, &c); err != nil {
		return fmt.Errorf("hx: %v", err)
	}
	final := rawStream(c)
	bits := gozxing.NewEmptyBitArray()
	for _, b := range final {
		bits.AppendBits(int(b), 8)
	}
	ver, err := decoder.Version_GetVersionForNumber(c.V)
	if err != nil {
		return fmt.Errorf("Version_GetVersionForNumber(%d): %v", c.V, err)
	}
	n := ver.GetDimensionForVersion()
	m := encoder.NewByteMatrix(n, n)
	if e := encoder.MatrixUtil_buildMatrix(bits, qrx.LibLevel(c.Level), ver, c.Mask, m); e != nil {
		return fmt.Errorf("MatrixUtil_buildMatrix failed: %v", e)
	}
	return diffMatrix(m, qrref.Build(final, c.V, c.Level, c.Mask))
}

// TableCase: decoder tables for one version (and all levels).
type TableCase struct {
	V int `json:"v"`
}

func checkTable(raw json.RawMessage) error {
	var c TableCase
	if err := json.Unmarshal(raw, &c); err != nil {
		return fmt.Errorf("hx: %v", err)
	}
	ver, err := decoder.Version_GetVersionForNumber(c.V)
	if err != nil {
		return fmt.Errorf("Version_GetVersionForNumber(%d): %v", c.V, err)
	}
	if ver.GetVersionNumber() != c.V {
		return fmt.Errorf("version %d reports number %d", c.V, ver.GetVersionNumber())
	}
	if ver.GetDimensionForVersion() != qrref.Size(c.V) {
		return fmt.Errorf("v%d dimension %d, standard %d", c.V, ver.GetDimensionForVersion(), qrref.Size(c.V))
	}
	if ver.GetTotalCodewords() != qrref.TotalCodewords(c.V) {
		return fmt.Errorf("v%d total codewords %d, standard %d", c.V, ver.GetTotalCodewords(), qrref.TotalCodewords(c.V))
	}
	ac, want := ver.GetAlignmentPatternCenters(), qrref.AlignmentCenters(c.V)
	if len(ac) != len(want) {
		return fmt.Errorf("v%d alignment centres %v, standard %v", c.V, ac, want)
	}
	for i := range ac {
		if ac[i] != want[i] {
			return fmt.Errorf("v%d alignment centres %v, standard %v", c.V, ac, want)
		}
	}
	for l := 0; l < 4; l++ {
		eb := ver.GetECBlocksForLevel(qrx.LibLevel(l))
		bi := qrref.Blocks(c.V, l)
		if eb.GetECCodewordsPerBlock() != bi.EcPerBlock || eb.GetNumBlocks() != bi.NumBlocks() || eb.GetTotalECCodewords() != bi.EcPerBlock*bi.NumBlocks() {
			return fmt.Errorf("v%d-%s: ec/block %d, blocks %d, total ec %d; standard %d, %d", c.V, qrref.LevelNames[l], eb.GetECCodewordsPerBlock(), eb.GetNumBlocks(), eb.GetTotalECCodewords(), bi.EcPerBlock, bi.NumBlocks())
		}
		var wantGroups [][2]int
		wantGroups = append(wantGroups, [2]int{bi.NumShort, bi.ShortData})
		if bi.NumLong > 0 {
			wantGroups = append(wantGroups, [2]int{bi.NumLong, bi.LongData})
		}
		g := eb.GetECBlocks()
		if len(g) != len(wantGroups) {
			return fmt.Errorf("v%d-%s: %d block groups, standard %v", c.V, qrref.LevelNames[l], len(g), wantGroups)
		}
		for i := range g {
			if g[i].GetCount() != wantGroups[i][0] || g[i].GetDataCodewords() != wantGroups[i][1] {
				return fmt.Errorf("v%d-%s: group %d = %dx%d data codewords, standard %dx%d", c.V, qrref.LevelNames[l], i, g[i].GetCount(), g[i].GetDataCodewords(), wantGroups[i][0], wantGroups[i][1])
			}
		}
	}
	// version word decodes to itself (v >= 7)
	if c.V >= 7 {
		got, err := decoder.Version_decodeVersionInformation(qrref.VersionWord(c.V))
		if err != nil || got.GetVersionNumber() != c.V {
			return fmt.Errorf("version word %#x of v%d decodes to %v (%v)", qrref.VersionWord(c.V), c.V, got, err)
		}
	}
	// decoder mask predicates for this dimension
	n := qrref.Size(c.V)
	for m := 0; m < 8; m++ {
		bm, _ := gozxing.NewSquareBitMatrix(n)
		decoder.DataMaskValues[m].UnmaskBitMatrix(bm, n)
		for i := 0; i < n; i++ {
			for j := 0; j < n; j++ {
				if bm.Get(j, i) != qrref.MaskBit(m, i, j) {
					return fmt.Errorf("decoder data mask %d at row %d col %d (dimension %d) = %v, standard %v", m, i, j, n, bm.Get(j, i), qrref.MaskBit(m, i, j))
				}
			}
		}
	}
	return nil
}

// FormatCase: one of the 32 format words.
type FormatCase struct {
	Level int `json:"level"`
	Mask  int `json:"mask"`
}

func checkFormat(raw json.RawMessage) error {
	var c FormatCase
	if err := json.Unmarshal(raw, &c); err != nil {
		return fmt.Errorf("hx: %v", err)
	}
	w := uint(qrref.FormatWord(c.Level, c.Mask))
	fi := decoder.FormatInformation_DecodeFormatInformation(w, w)
	if fi == nil {
		return fmt.Errorf("format word %#x (%s, mask %d) not decoded", w, qrref.LevelNames[c.Level], c.Mask)
	}
	if qrx.LevelIndex(fi.GetErrorCorrectionLevel()) != c.Level || int(fi.GetDataMask()) != c.Mask {
		return fmt.Errorf("format word %#x decodes to (%v, mask %d), standard (%s, mask %d)", w, fi.GetErrorCorrectionLevel(), fi.GetDataMask(), qrref.LevelNames[c.Level], c.Mask)
	}
	// every single-bit error must still decode to the same word (distance of the code is 7)
	for b := uint(0); b < 15; b++ {
		f2 := decoder.FormatInformation_DecodeFormatInformation(w^(1<<b), w^(1<<b))
		if f2 == nil || qrx.LevelIndex(f2.GetErrorCorrectionLevel()) != c.Level || int(f2.GetDataMask()) != c.Mask {
			return fmt.Errorf("format word %#x with bit %d flipped decodes to %v", w, b, f2)
		}
	}
	return nil
}

var modes = []int{qrref.Numeric, qrref.Alnum, qrref.Byte, qrref.Kanji}

func symClass(c SymCase) string {
	vc := "v1-9"
	if c.V >= 27 {
		vc = "v27-40"
	} else if c.V >= 10 {
		vc = "v10-26"
	}
	s := fmt.Sprintf("%s;level=%s;mask=%d;mode=%s", vc, qrref.LevelNames[c.Level], c.Mask, qrref.ModeNames[c.Mode])
	if c.Charset != "" {
		s += ";charset=" + c.Charset
	}
	if c.GS1 {
		s += ";gs1"
	}
	return s
}

func TestCheck(t *testing.T) {
	hx.Main(t, "C07", func(c *hx.Ctx) {
		c.Register("sym", checkSym)
		c.Register("raw", checkRaw)
		c.Register("table", checkTable)
		c.Register("format", checkFormat)
	}, func(c *hx.Ctx) {
		// sanity anchors of the reference itself (published figures)
		anchors := []struct{ mode, v, level, want int }{
			{qrref.Numeric, 40, qrref.L, 7089}, {qrref.Alnum, 40, qrref.L, 4296}, {qrref.Byte, 40, qrref.L, 2953}, {qrref.Kanji, 40, qrref.L, 1817},
			{qrref.Numeric, 1, qrref.H, 17}, {qrref.Alnum, 1, qrref.H, 10}, {qrref.Byte, 1, qrref.H, 7}, {qrref.Kanji, 1, qrref.H, 4},
			{qrref.Numeric, 40, qrref.H, 3057}, {qrref.Byte, 40, qrref.H, 1273},
		}
		for _, a := range anchors {
			if got := qrref.Capacity(a.mode, a.v, a.level, 0); got != a.want {
				c.Inconclusive(fmt.Sprintf("reference capacity(%d,%d,%d)=%d, published %d", a.mode, a.v, a.level, got, a.want))
			}
		}
		// first builds in this process, in an order that is neither ascending nor gap-free: whatever a
		// build leaves behind (lazily filled tables, memos) must not change a later symbol
		{
			rng := hx.NewRng(c.Seed("first_builds", 0))
			order := []int{40, 21, 9, 33, 8, 12, 7, 27, 10, 26}
			for i := 0; i < 12; i++ {
				order = append(order, 1+rng.Intn(40))
			}
			for i, v := range order {
				lv := (i + c.P.Shard) % 4
				cs := SymCase{V: v, Level: lv, Mask: (i * 3) % 8, Mode: qrref.Alnum, Text: fmt.Sprintf("ORDER %d", v)}
				c.Note("first_builds_in_mixed_order", fmt.Sprintf("position=%d", min(i, 10)), true, hx.HashS("order", fmt.Sprint(i, v, lv)), func() any { return cs })
				if !c.Enum("first_builds_in_mixed_order", "sym", cs, nil) {
					break
				}
			}
		}
		// tables: all versions, all format words
		for v := 1; v <= 40; v++ {
			if c.Mine(v) {
				c.NoteBulk("tables_all_versions", "", 1, 1, func() any { return TableCase{v} })
				c.Enum("tables_all_versions", "table", TableCase{v}, nil)
			}
		}
		c.SetExhaustive("tables_all_versions", true)
		for l := 0; l < 4; l++ {
			for m := 0; m < 8; m++ {
				if c.Mine(l*8 + m) {
					c.NoteBulk("format_words_all", "", 1, 1, func() any { return FormatCase{l, m} })
					c.Enum("format_words_all", "format", FormatCase{l, m}, nil)
				}
			}
		}
		c.SetExhaustive("format_words_all", true)

		// all 1280 configurations x payloads via text
		idx := 0
		lens := []string{"cap"}
		modesPer := 1
		if c.Thorough() {
			lens = []string{"one", "mid", "cap", "cap-1"}
			modesPer = 4
		}
		for v := 1; v <= 40; v++ {
			for l := 0; l < 4; l++ {
				for m := 0; m < 8; m++ {
					idx++
					if !c.Mine(idx) {
						continue
					}
					for mi := 0; mi < modesPer; mi++ {
						mode := modes[(idx+mi+int(c.P.Seed))%4]
						for li, ln := range lens {
							capN := qrref.Capacity(mode, v, l, 0)
							n := capN
							rng := hx.NewRng(c.Seed("sym", idx*16+mi*4+li))
							switch ln {
							case "one":
								n = 1
							case "mid":
								n = 1 + rng.Intn(capN)
							case "cap-1":
								n = capN - 1
							}
							if n < 1 {
								continue
							}
							cs := SymCase{V: v, Level: l, Mask: m, Mode: mode, Text: qrx.Payload(mode, n, rng, 0)}
							raw, _ := json.Marshal(cs)
							c.Note("sym_all_configs", symClass(cs)+";len="+ln, true, hx.Hash(raw), func() any {
								s := cs
								if len(s.Text) > 60 {
									s.Text = s.Text[:60] + "..."
								}
								return s
							})
							c.Enum("sym_all_configs", "sym", cs, shrinkSym)
						}
					}
				}
			}
		}
		c.SetExhaustive("sym_all_configs", false)

		// rapid: configurations x payloads incl. ECI / GS1 headers, exact-fill and terminator cases
		c.Rapid("sym_random", c.N(400, 12000), func(t *rapid.T) {
			v := rapid.IntRange(1, 40).Draw(t, "v")
			if rapid.Bool().Draw(t, "small") {
				v = rapid.IntRange(1, 10).Draw(t, "vs")
			}
			l := rapid.IntRange(0, 3).Draw(t, "level")
			m := rapid.IntRange(0, 7).Draw(t, "mask")
			mode := rapid.SampledFrom(modes).Draw(t, "mode")
			cs := SymCase{V: v, Level: l, Mask: m, Mode: mode}
			hdr := 0
			if mode == qrref.Byte && rapid.IntRange(0, 2).Draw(t, "eci") == 0 {
				cs.Charset = "ISO-8859-1"
				hdr += 12
			}
			if rapid.IntRange(0, 5).Draw(t, "gs1") == 0 {
				cs.GS1 = true
				hdr += 4
			}
			capN := qrref.Capacity(mode, v, l, hdr)
			if capN < 1 {
				t.Skip("nothing fits")
			}
			n := capN - rapid.IntRange(0, 3).Draw(t, "below")
			if rapid.Bool().Draw(t, "free") {
				n = rapid.IntRange(1, capN).Draw(t, "n")
			}
			if n < 1 {
				n = 1
			}
			rng := hx.NewRng(rapid.Uint64().Draw(t, "payload"))
			kind := rapid.IntRange(0, 2).Draw(t, "pkind")
			if cs.Charset == "ISO-8859-1" {
				// Latin-1 text with high characters
				rs := make([]rune, n)
				for i := range rs {
					rs[i] = rune(0xA0 + rng.Intn(0x60))
				}
				rs[0] = 'a'
				cs.Text = string(rs)
			} else {
				cs.Text = qrx.Payload(mode, n, rng, kind)
			}
			raw, _ := json.Marshal(cs)
			c.Note("sym_random", symClass(cs), true, hx.Hash(raw), nil)
			if err := c.Eval("sym", cs); err != nil {
				t.Fatalf("%v", err)
			}
		})

		// arbitrary final codeword streams through MatrixUtil_buildMatrix
		kinds := []string{"random", "zero", "ones", "single", "ramp", "random"}
		idx = 0
		for v := 1; v <= 40; v++ {
			for m := 0; m < 8; m++ {
				idx++
				if !c.Mine(idx) {
					continue
				}
				reps := c.N(1, 16)
				for r := 0; r < reps; r++ {
					cs := RawCase{V: v, Level: (idx + r) % 4, Mask: m, Kind: kinds[(idx+r)%len(kinds)], Seed: c.Seed("raw", idx*8+r)}
					raw, _ := json.Marshal(cs)
					c.Note("raw_streams", fmt.Sprintf("kind=%s;mask=%d", cs.Kind, m), true, hx.Hash(raw), func() any { return cs })
					c.Enum("raw_streams", "raw", cs, nil)
				}
			}
		}
		c.SetExhaustive("raw_streams", false)
	})
}

func shrinkSym(v any) []any {
	c := v.(SymCase)
	var out []any
	rs := []rune(c.Text)
	if len(rs) > 1 {
		s := c
		s.Text = string(rs[:len(rs)/2])
		out = append(out, s)
		s2 := c
		s2.Text = string(rs[:len(rs)-1])
		out = append(out, s2)
	}
	return out
}
