// C16: BitMatrix and BitArray behave as plain 2-D / 1-D bit containers.
// Model-based, stateful: a generated operation sequence is applied to the
// library object and to a naive []bool / [][]bool model; every query is
// compared after every step.
package c16

import (
	"encoding/json"
	"fmt"
	"image"
	"image/color"
	"strings"
	"testing"

	"github.com/makiuchi-d/gozxing"
	"pgregory.net/rapid"

	"verif/internal/hx"
)

// ---------------------------------------------------------------- BitMatrix

type MOp struct {
	Op string `json:"op"`
	A  []int  `json:"a,omitempty"`
	S  string `json:"s,omitempty"` // bit strings ("0101", rows separated by '/')
}

type MCase struct {
	W    int    `json:"w"`
	H    int    `json:"h"`
	Init string `json:"init"` // rows separated by '/', '1' = set
	Ops  []MOp  `json:"ops"`
}

type grid struct {
	w, h int
	b    [][]bool
}

func newGrid(w, h int) *grid {
	g := &grid{w: w, h: h, b: make([][]bool, h)}
	for y := range g.b {
		g.b[y] = make([]bool, w)
	}
	return g
}

func parseRows(s string) [][]bool {
	var out [][]bool
	for _, r := range strings.Split(s, "/") {
		row := make([]bool, len(r))
		for i := range r {
			row[i] = r[i] == '1'
		}
		out = append(out, row)
	}
	return out
}

func (g *grid) get(x, y int) bool {
	if x < 0 || y < 0 || x >= g.w || y >= g.h {
		return false
	}
	return g.b[y][x]
}

func (g *grid) mixed() bool {
	set, unset := false, false
	for _, r := range g.b {
		for _, v := range r {
			if v {
				set = true
			} else {
				unset = true
			}
		}
	}
	return set && unset
}

func rowArray(bits []bool) *gozxing.BitArray {
	a := gozxing.NewBitArray(len(bits))
	for i, v := range bits {
		if v {
			a.Set(i)
		}
	}
	return a
}

func eqInts(a, b []int) bool {
	if (a == nil) != (b == nil) || len(a) != len(b) {
		return false
	}
	for i := range a {
		if a[i] != b[i] {
			return false
		}
	}
	return true
}

func checkMatrixState(m *gozxing.BitMatrix, g *grid, reuse *gozxing.BitArray) error {
	if m.GetWidth() != g.w || m.GetHeight() != g.h {
		return fmt.Errorf("dimensions %dx%d, model %dx%d", m.GetWidth(), m.GetHeight(), g.w, g.h)
	}
	if m.GetRowSize() != (g.w+31)/32 {
		return fmt.Errorf("GetRowSize %d for width %d", m.GetRowSize(), g.w)
	}
	for y := -1; y <= g.h; y++ {
		for x := -1; x <= g.w; x++ {
			if m.Get(x, y) != g.get(x, y) {
				return fmt.Errorf("Get(%d,%d)=%v, model %v", x, y, m.Get(x, y), g.get(x, y))
			}
		}
	}
	var left, top, right, bottom = g.w, g.h, -1, -1
	var tl, br []int
	for y := 0; y < g.h; y++ {
		for x := 0; x < g.w; x++ {
			if g.b[y][x] {
				if tl == nil {
					tl = []int{x, y}
				}
				br = []int{x, y}
				if x < left {
					left = x
				}
				if x > right {
					right = x
				}
				if y < top {
					top = y
				}
				if y > bottom {
					bottom = y
				}
			}
		}
	}
	var rect []int
	if right >= 0 {
		rect = []int{left, top, right - left + 1, bottom - top + 1}
	}
	if got := m.GetEnclosingRectangle(); !eqInts(got, rect) {
		return fmt.Errorf("GetEnclosingRectangle=%v, model %v", got, rect)
	}
	if got := m.GetTopLeftOnBit(); !eqInts(got, tl) {
		return fmt.Errorf("GetTopLeftOnBit=%v, model %v", got, tl)
	}
	if got := m.GetBottomRightOnBit(); !eqInts(got, br) {
		return fmt.Errorf("GetBottomRightOnBit=%v, model %v", got, br)
	}
	for y := 0; y < g.h; y++ {
		row := m.GetRow(y, nil)
		if row.GetSize() != g.w {
			return fmt.Errorf("GetRow(%d,nil).GetSize()=%d, width %d", y, row.GetSize(), g.w)
		}
		for x := 0; x < g.w; x++ {
			if row.Get(x) != g.b[y][x] {
				return fmt.Errorf("GetRow(%d,nil).Get(%d)=%v, model %v", y, x, row.Get(x), g.b[y][x])
			}
		}
		if ns, want := row.GetNextSet(0), nextVal(g.b[y], 0, true); ns != want {
			return fmt.Errorf("GetRow(%d).GetNextSet(0)=%d, model %d", y, ns, want)
		}
		if reuse != nil {
			// the caller's row arrives dirty (every bit set): GetRow must hand back only this row's bits
			for i := 0; i < reuse.GetSize(); i++ {
				reuse.Set(i)
			}
			r2 := m.GetRow(y, reuse)
			if r2.GetSize() < g.w {
				return fmt.Errorf("GetRow(%d,reused) size %d < width", y, r2.GetSize())
			}
			for x := 0; x < r2.GetSize(); x++ {
				want := x < g.w && g.b[y][x]
				if r2.Get(x) != want {
					return fmt.Errorf("GetRow(%d,reused row of size %d).Get(%d)=%v, model %v", y, r2.GetSize(), x, r2.Get(x), want)
				}
			}
		}
	}
	var sb strings.Builder
	for y := 0; y < g.h; y++ {
		for x := 0; x < g.w; x++ {
			if g.b[y][x] {
				sb.WriteString("X ")
			} else {
				sb.WriteString("  ")
			}
		}
		sb.WriteString("\n")
	}
	if m.String() != sb.String() {
		return fmt.Errorf("String() differs from model")
	}
	if m.Bounds() != image.Rect(0, 0, g.w, g.h) {
		return fmt.Errorf("Bounds()=%v", m.Bounds())
	}
	if m.ColorModel() != color.GrayModel {
		return fmt.Errorf("ColorModel is not GrayModel")
	}
	for y := -1; y <= g.h; y++ {
		for x := -1; x <= g.w; x++ {
			want := color.Gray{255}
			if g.get(x, y) {
				want = color.Gray{0}
			}
			if m.At(x, y) != color.Color(want) {
				return fmt.Errorf("At(%d,%d)=%v, model %v", x, y, m.At(x, y), want)
			}
		}
	}
	return nil
}

func nextVal(b []bool, from int, v bool) int {
	for i := from; i < len(b); i++ {
		if b[i] == v {
			return i
		}
	}
	return len(b)
}

func checkMatrixCase(raw json.RawMessage) error {
	var c MCase
	if err := json.Unmarshal(raw, &c); err != nil {
		return fmt.Errorf("hx: bad case: %v", err)
	}
	m, err := gozxing.NewBitMatrix(c.W, c.H)
	if err != nil {
		return fmt.Errorf("NewBitMatrix(%d,%d): %v", c.W, c.H, err)
	}
	g := newGrid(c.W, c.H)
	for y, r := range parseRows(c.Init) {
		for x, v := range r {
			if v && x < c.W && y < c.H {
				m.Set(x, y)
				g.b[y][x] = true
			}
		}
	}
	reuse := gozxing.NewBitArray(c.W + 40)
	if err := checkMatrixState(m, g, reuse); err != nil {
		return fmt.Errorf("after init: %v", err)
	}
	for i, op := range c.Ops {
		a := op.A
		switch op.Op {
		case "set":
			m.Set(a[0], a[1])
			g.b[a[1]][a[0]] = true
		case "unset":
			m.Unset(a[0], a[1])
			g.b[a[1]][a[0]] = false
		case "flip":
			m.Flip(a[0], a[1])
			g.b[a[1]][a[0]] = !g.b[a[1]][a[0]]
		case "flipall":
			m.FlipAll()
			for y := range g.b {
				for x := range g.b[y] {
					g.b[y][x] = !g.b[y][x]
				}
			}
		case "clear":
			m.Clear()
			for y := range g.b {
				for x := range g.b[y] {
					g.b[y][x] = false
				}
			}
		case "region":
			l, t, w, h := a[0], a[1], a[2], a[3]
			e := m.SetRegion(l, t, w, h)
			invalid := t < 0 || l < 0 || h < 1 || w < 1 || t+h > g.h || l+w > g.w
			if (e != nil) != invalid {
				return fmt.Errorf("step %d SetRegion(%d,%d,%d,%d) on %dx%d: err=%v, model invalid=%v", i, l, t, w, h, g.w, g.h, e, invalid)
			}
			if !invalid {
				for y := t; y < t+h; y++ {
					for x := l; x < l+w; x++ {
						g.b[y][x] = true
					}
				}
			}
		case "xor":
			rows := parseRows(op.S)
			mh, mw := len(rows), len(rows[0])
			mask, e := gozxing.NewBitMatrix(mw, mh)
			if e != nil {
				return fmt.Errorf("hx: mask: %v", e)
			}
			for y := range rows {
				for x := range rows[y] {
					if rows[y][x] {
						mask.Set(x, y)
					}
				}
			}
			e = m.Xor(mask)
			differ := mw != g.w || mh != g.h
			if (e != nil) != differ {
				return fmt.Errorf("step %d Xor with %dx%d mask on %dx%d: err=%v", i, mw, mh, g.w, g.h, e)
			}
			if !differ {
				for y := range rows {
					for x := range rows[y] {
						g.b[y][x] = g.b[y][x] != rows[y][x]
					}
				}
			}
		case "rot180":
			m.Rotate180()
			n := newGrid(g.w, g.h)
			for y := 0; y < g.h; y++ {
				for x := 0; x < g.w; x++ {
					n.b[g.h-1-y][g.w-1-x] = g.b[y][x]
				}
			}
			g = n
		case "rot90":
			// counter-clockwise: new(x', y') with x' = y, y' = w-1-x
			m.Rotate90()
			n := newGrid(g.h, g.w)
			for y := 0; y < g.h; y++ {
				for x := 0; x < g.w; x++ {
					n.b[g.w-1-x][y] = g.b[y][x]
				}
			}
			g = n
		case "setrow":
			bits := parseRows(op.S)[0]
			row := rowArray(bits)
			if len(a) > 1 && a[1] > 0 {
				// a caller's row buffer with more 32-bit words than one matrix row (taken from a wider
				// matrix, say), the surplus words dirty: only this row may change
				stride := (g.w + 31) / 32 * 32
				row = gozxing.NewBitArray(stride + 32*a[1])
				for i, v := range bits {
					if v {
						row.Set(i)
					}
				}
				for i := stride; i < row.GetSize(); i++ {
					row.Set(i)
				}
			}
			m.SetRow(a[0], row)
			copy(g.b[a[0]], bits)
		case "reparse":
			pairs := [][2]string{{"X ", "  "}, {"1", "0"}, {"#", "."}}
			p := pairs[a[0]%len(pairs)]
			var s string
			if a[0] >= len(pairs) {
				s = m.ToStringWithLineSeparator(p[0], p[1], "\r\n")
			} else {
				s = m.ToString(p[0], p[1])
			}
			m2, e := gozxing.ParseStringToBitMatrix(s, p[0], p[1])
			if e != nil {
				return fmt.Errorf("step %d ParseStringToBitMatrix(ToString(m)): %v", i, e)
			}
			m = m2
		case "boolmap":
			img := make([][]bool, g.h)
			for y := range img {
				img[y] = make([]bool, g.w)
				for x := range img[y] {
					img[y][x] = m.Get(x, y)
				}
			}
			m2, e := gozxing.ParseBoolMapToBitMatrix(img)
			if e != nil {
				return fmt.Errorf("step %d ParseBoolMapToBitMatrix: %v", i, e)
			}
			m = m2
		default:
			return fmt.Errorf("hx: unknown op %q", op.Op)
		}
		reuse = gozxing.NewBitArray(g.w + 40)
		if err := checkMatrixState(m, g, reuse); err != nil {
			return fmt.Errorf("after step %d (%s %v): %v", i, op.Op, op.A, err)
		}
	}
	return nil
}

func bitString(t *rapid.T, n int, label string) string {
	kind := rapid.IntRange(0, 3).Draw(t, label+"kind")
	b := make([]byte, n)
	for i := range b {
		b[i] = '0'
	}
	switch kind {
	case 0: // sparse
		k := rapid.IntRange(0, 3).Draw(t, label+"k")
		for j := 0; j < k; j++ {
			b[rapid.IntRange(0, n-1).Draw(t, label+"i")] = '1'
		}
	case 1: // dense random
		for i := range b {
			if rapid.Bool().Draw(t, label+"b") {
				b[i] = '1'
			}
		}
	case 2: // ends
		b[0], b[n-1] = '1', '1'
	case 3: // all
		for i := range b {
			b[i] = '1'
		}
	}
	return string(b)
}

func rowsString(t *rapid.T, w, h int, label string) string {
	rows := make([]string, h)
	for y := range rows {
		rows[y] = bitString(t, w, label)
	}
	return strings.Join(rows, "/")
}

var specialW = []int{1, 2, 31, 32, 33, 63, 64, 65, 95, 96, 97, 127, 128, 129, 130}

func genMatrixCase(t *rapid.T, w, h int) (MCase, bool) {
	if w == 0 {
		if rapid.Bool().Draw(t, "specialw") {
			w = rapid.SampledFrom(specialW).Draw(t, "w")
		} else {
			w = rapid.IntRange(1, 130).Draw(t, "w")
		}
		h = rapid.IntRange(1, 8).Draw(t, "h")
	}
	c := MCase{W: w, H: h, Init: rowsString(t, w, h, "init")}
	cw, ch := w, h
	// track "mixed" cheaply: once the init has both values or after a partial op
	g := newGrid(w, h)
	for y, r := range parseRows(c.Init) {
		copy(g.b[y], r)
	}
	mixedSeen := g.mixed()
	interesting := false
	n := rapid.IntRange(1, 40).Draw(t, "nops")
	for i := 0; i < n; i++ {
		k := rapid.SampledFrom([]string{"set", "unset", "flip", "flipall", "clear", "region", "region", "xor", "rot180", "rot180", "rot90", "setrow", "reparse", "boolmap"}).Draw(t, "op")
		op := MOp{Op: k}
		switch k {
		case "set", "unset", "flip":
			op.A = []int{rapid.IntRange(0, cw-1).Draw(t, "x"), rapid.IntRange(0, ch-1).Draw(t, "y")}
			mixedSeen = mixedSeen || cw*ch > 1
		case "region":
			if rapid.IntRange(0, 5).Draw(t, "bad") == 0 {
				op.A = []int{rapid.IntRange(-1, cw).Draw(t, "l"), rapid.IntRange(-1, ch).Draw(t, "t"), rapid.IntRange(-1, cw+1).Draw(t, "rw"), rapid.IntRange(-1, ch+1).Draw(t, "rh")}
			} else {
				l := rapid.IntRange(0, cw-1).Draw(t, "l")
				tp := rapid.IntRange(0, ch-1).Draw(t, "t")
				op.A = []int{l, tp, rapid.IntRange(1, cw-l).Draw(t, "rw"), rapid.IntRange(1, ch-tp).Draw(t, "rh")}
			}
		case "xor":
			if rapid.IntRange(0, 7).Draw(t, "baddim") == 0 {
				op.S = rowsString(t, rapid.IntRange(1, cw+1).Draw(t, "mw"), rapid.IntRange(1, ch+1).Draw(t, "mh"), "mask")
			} else {
				op.S = rowsString(t, cw, ch, "mask")
			}
		case "rot90":
			cw, ch = ch, cw
		case "setrow":
			op.A = []int{rapid.IntRange(0, ch-1).Draw(t, "y"), rapid.SampledFrom([]int{0, 0, 1, 2}).Draw(t, "surplus_words")}
			op.S = bitString(t, cw, "row")
		case "reparse":
			op.A = []int{rapid.IntRange(0, 5).Draw(t, "pair")}
		}
		switch k {
		case "rot180", "rot90", "region", "flipall", "xor", "setrow":
			if mixedSeen {
				interesting = true
			}
		}
		c.Ops = append(c.Ops, op)
	}
	return c, interesting
}

func wclass(w int) string {
	switch w % 32 {
	case 0:
		return "wmod32=0"
	case 1:
		return "wmod32=1"
	case 31:
		return "wmod32=31"
	}
	return "wmod32=other"
}

func opKinds(ops []string) string {
	seen := map[string]bool{}
	var out []string
	for _, o := range ops {
		if !seen[o] {
			seen[o] = true
			out = append(out, "op="+o)
		}
	}
	return strings.Join(out, ";")
}

// ---------------------------------------------------------------- BitArray

type AOp struct {
	Op string `json:"op"`
	A  []int  `json:"a,omitempty"`
	S  string `json:"s,omitempty"`
}

type ACase struct {
	Size  int    `json:"size"` // -1: NewEmptyBitArray()
	Init  string `json:"init"`
	Ops   []AOp  `json:"ops"`
	Reuse bool   `json:"-"`
}

func modelBytes(b []bool, nbytes int) []byte {
	out := make([]byte, nbytes)
	for i := 0; i < nbytes*8; i++ {
		if i < len(b) && b[i] {
			out[i/8] |= 1 << uint(7-i%8)
		}
	}
	return out
}

func checkArrayState(a *gozxing.BitArray, b []bool) error {
	n := len(b)
	if a.GetSize() != n {
		return fmt.Errorf("GetSize=%d, model %d", a.GetSize(), n)
	}
	if a.GetSizeInBytes() != (n+7)/8 {
		return fmt.Errorf("GetSizeInBytes=%d, model %d", a.GetSizeInBytes(), (n+7)/8)
	}
	for i := 0; i < n; i++ {
		if a.Get(i) != b[i] {
			return fmt.Errorf("Get(%d)=%v, model %v", i, a.Get(i), b[i])
		}
	}
	for from := 0; from <= n+1; from++ {
		if got, want := a.GetNextSet(from), nextVal(b, from, true); got != want {
			return fmt.Errorf("GetNextSet(%d)=%d, model %d (size %d)", from, got, want, n)
		}
		if got, want := a.GetNextUnset(from), nextVal(b, from, false); got != want {
			return fmt.Errorf("GetNextUnset(%d)=%d, model %d (size %d)", from, got, want, n)
		}
	}
	// range probes at interesting points: ends, word boundaries, run boundaries
	pts := []int{0, n}
	for _, p := range []int{1, 31, 32, 33, 63, 64, 65, n - 1, n - 32, n / 2} {
		if p > 0 && p < n {
			pts = append(pts, p)
		}
	}
	for i := 1; i < n && len(pts) < 18; i++ {
		if b[i] != b[i-1] {
			pts = append(pts, i)
		}
	}
	for _, s := range pts {
		for _, e := range pts {
			for _, v := range []bool{false, true} {
				got, err := a.IsRange(s, e, v)
				if e < s {
					if err == nil {
						return fmt.Errorf("IsRange(%d,%d) accepted end<start", s, e)
					}
					continue
				}
				if err != nil {
					return fmt.Errorf("IsRange(%d,%d,%v) error %v (size %d)", s, e, v, err, n)
				}
				want := true
				for i := s; i < e; i++ {
					if b[i] != v {
						want = false
						break
					}
				}
				if got != want {
					return fmt.Errorf("IsRange(%d,%d,%v)=%v, model %v (size %d)", s, e, v, got, want, n)
				}
			}
		}
	}
	if _, err := a.IsRange(0, n+1, true); err == nil {
		return fmt.Errorf("IsRange(0,size+1) accepted")
	}
	if _, err := a.IsRange(-1, n, true); err == nil {
		return fmt.Errorf("IsRange(-1,size) accepted")
	}
	nb := (n + 7) / 8
	got := make([]byte, nb+2)
	a.ToBytes(0, got, 1, nb)
	want := modelBytes(b, nb)
	for i := 0; i < nb; i++ {
		if got[1+i] != want[i] {
			return fmt.Errorf("ToBytes byte %d = %#x, model %#x", i, got[1+i], want[i])
		}
	}
	if got[0] != 0 || got[nb+1] != 0 {
		return fmt.Errorf("ToBytes wrote outside [offset, offset+numBytes)")
	}
	if n >= 16 {
		// byte export from an unaligned bit offset, fully in range
		off := n % 7
		k := (n - off) / 8
		g2 := make([]byte, k)
		a.ToBytes(off, g2, 0, k)
		w2 := modelBytes(b[off:], k)
		for i := range g2 {
			if g2[i] != w2[i] {
				return fmt.Errorf("ToBytes(offset %d) byte %d = %#x, model %#x", off, i, g2[i], w2[i])
			}
		}
	}
	var sb strings.Builder
	for i := 0; i < n; i++ {
		if i%8 == 0 {
			sb.WriteByte(' ')
		}
		if b[i] {
			sb.WriteByte('X')
		} else {
			sb.WriteByte('.')
		}
	}
	if a.String() != sb.String() {
		return fmt.Errorf("String()=%q, model %q", a.String(), sb.String())
	}
	return nil
}

func checkArrayCase(raw json.RawMessage) error {
	var c ACase
	if err := json.Unmarshal(raw, &c); err != nil {
		return fmt.Errorf("hx: bad case: %v", err)
	}
	var a *gozxing.BitArray
	var b []bool
	if c.Size < 0 {
		a = gozxing.NewEmptyBitArray()
	} else {
		a = gozxing.NewBitArray(c.Size)
		b = make([]bool, c.Size)
		for i := 0; i < len(c.Init) && i < c.Size; i++ {
			if c.Init[i] == '1' {
				a.Set(i)
				b[i] = true
			}
		}
	}
	if err := checkArrayState(a, b); err != nil {
		return fmt.Errorf("after init: %v", err)
	}
	for i, op := range c.Ops {
		x := op.A
		switch op.Op {
		case "set":
			a.Set(x[0])
			b[x[0]] = true
		case "flip":
			a.Flip(x[0])
			b[x[0]] = !b[x[0]]
		case "bulk":
			// x[0] word-aligned index; op.S the 32 bits (LSB first), never set at or beyond size
			var v uint32
			for j := 0; j < len(op.S); j++ {
				if op.S[j] == '1' {
					v |= 1 << uint(j)
				}
			}
			a.SetBulk(x[0], v)
			for j := 0; j < 32 && x[0]+j < len(b); j++ {
				b[x[0]+j] = v&(1<<uint(j)) != 0
			}
		case "range":
			e := a.SetRange(x[0], x[1])
			invalid := x[1] < x[0] || x[0] < 0 || x[1] > len(b)
			if (e != nil) != invalid {
				return fmt.Errorf("step %d SetRange(%d,%d) size %d: err=%v", i, x[0], x[1], len(b), e)
			}
			if !invalid {
				for j := x[0]; j < x[1]; j++ {
					b[j] = true
				}
			}
		case "clear":
			a.Clear()
			for j := range b {
				b[j] = false
			}
		case "appendbit":
			a.AppendBit(x[0] != 0)
			b = append(b, x[0] != 0)
		case "appendbits":
			// x[0] = numBits; op.S = value bits, MSB first (len == numBits when valid)
			val := 0
			for j := 0; j < len(op.S); j++ {
				val <<= 1
				if op.S[j] == '1' {
					val |= 1
				}
			}
			if x[0] >= 0 && x[0] < 32 && len(x) > 1 && x[1] != 0 {
				val |= 0x5a5a5a5a << uint(x[0]) // junk above numBits must be ignored
			}
			e := a.AppendBits(val, x[0])
			invalid := x[0] < 0 || x[0] > 32
			if (e != nil) != invalid {
				return fmt.Errorf("step %d AppendBits(_, %d): err=%v", i, x[0], e)
			}
			if !invalid {
				for j := 0; j < x[0]; j++ {
					b = append(b, op.S[j] == '1')
				}
			}
		case "appendarray":
			if len(x) > 0 && x[0] == 2 {
				// the array appended to itself
				a.AppendBitArray(a)
				b = append(b, append([]bool(nil), b...)...)
				break
			}
			ob := parseRows(op.S + "")[0]
			if op.S == "" {
				ob = nil
			}
			var o *gozxing.BitArray
			if len(x) > 0 && x[0] == 1 {
				o = gozxing.NewEmptyBitArray()
				for _, v := range ob {
					o.AppendBit(v)
				}
			} else {
				o = rowArray(ob)
			}
			a.AppendBitArray(o)
			b = append(b, ob...)
		case "xor":
			ob := parseRows(op.S)[0]
			if op.S == "" {
				ob = nil
			}
			var o *gozxing.BitArray
			if len(x) > 0 && x[0] == 1 {
				o = gozxing.NewEmptyBitArray()
				for _, v := range ob {
					o.AppendBit(v)
				}
			} else {
				o = rowArray(ob)
			}
			e := a.Xor(o)
			differ := len(ob) != len(b)
			if (e != nil) != differ {
				return fmt.Errorf("step %d Xor size %d with size %d: err=%v", i, len(b), len(ob), e)
			}
			if !differ {
				for j := range b {
					b[j] = b[j] != ob[j]
				}
			}
		case "reverse":
			a.Reverse()
			for l, r := 0, len(b)-1; l < r; l, r = l+1, r-1 {
				b[l], b[r] = b[r], b[l]
			}
		default:
			return fmt.Errorf("hx: unknown op %q", op.Op)
		}
		if err := checkArrayState(a, b); err != nil {
			return fmt.Errorf("after step %d (%s %v %s): %v", i, op.Op, op.A, op.S, err)
		}
	}
	return nil
}

func genArrayCase(t *rapid.T, size int) (ACase, bool) {
	if size == -2 {
		switch rapid.IntRange(0, 3).Draw(t, "sizekind") {
		case 0:
			size = rapid.SampledFrom([]int{-1, 0, 1, 31, 32, 33, 63, 64, 65, 96, 128, 160, 192, 200}).Draw(t, "size")
		default:
			size = rapid.IntRange(0, 200).Draw(t, "size")
		}
	}
	c := ACase{Size: size}
	cur := 0
	mixed := false
	if size > 0 {
		c.Init = bitString(t, size, "init")
		cur = size
		mixed = strings.Contains(c.Init, "1") && strings.Contains(c.Init, "0")
	}
	interesting := false
	n := rapid.IntRange(1, 40).Draw(t, "nops")
	for i := 0; i < n; i++ {
		k := rapid.SampledFrom([]string{"set", "flip", "bulk", "range", "range", "clear", "appendbit", "appendbits", "appendbits", "appendarray", "xor", "reverse", "reverse"}).Draw(t, "op")
		op := AOp{Op: k}
		switch k {
		case "set", "flip":
			if cur == 0 {
				continue
			}
			op.A = []int{rapid.IntRange(0, cur-1).Draw(t, "i")}
			mixed = mixed || cur > 1
		case "bulk":
			if cur == 0 {
				continue
			}
			w := rapid.IntRange(0, (cur-1)/32).Draw(t, "word")
			nb := cur - w*32
			if nb > 32 {
				nb = 32
			}
			op.A = []int{w * 32}
			op.S = bitString(t, nb, "bulk")
		case "range":
			if rapid.IntRange(0, 6).Draw(t, "bad") == 0 {
				op.A = []int{rapid.IntRange(-1, cur+1).Draw(t, "s"), rapid.IntRange(-1, cur+1).Draw(t, "e")}
			} else {
				s := rapid.IntRange(0, cur).Draw(t, "s")
				op.A = []int{s, rapid.IntRange(s, cur).Draw(t, "e")}
			}
		case "appendbit":
			if cur >= 260 {
				continue
			}
			op.A = []int{rapid.IntRange(0, 1).Draw(t, "bit")}
			cur++
		case "appendbits":
			if cur >= 260 {
				continue
			}
			nb := rapid.SampledFrom([]int{0, 1, 3, 4, 7, 8, 11, 13, 16, 31, 32, 32, -1, 33}).Draw(t, "numbits")
			op.A = []int{nb, rapid.IntRange(0, 1).Draw(t, "junk")}
			if nb >= 1 && nb <= 32 {
				op.S = bitString(t, nb, "val")
				cur += nb
			}
		case "appendarray":
			if cur >= 260 {
				continue
			}
			if cur > 0 && cur <= 130 && rapid.IntRange(0, 4).Draw(t, "self") == 0 {
				op.A = []int{2}
				cur += cur
				break
			}
			m := rapid.IntRange(0, 70).Draw(t, "olen")
			if m > 0 {
				op.S = bitString(t, m, "other")
			}
			op.A = []int{rapid.IntRange(0, 1).Draw(t, "grown")}
			cur += m
		case "xor":
			m := cur
			if rapid.IntRange(0, 7).Draw(t, "badsize") == 0 {
				m = rapid.IntRange(0, cur+2).Draw(t, "osize")
			}
			if m > 0 {
				op.S = bitString(t, m, "other")
			}
			op.A = []int{rapid.IntRange(0, 1).Draw(t, "grown")}
			if m == cur && cur > 1 {
				mixed = true
			}
		}
		switch k {
		case "reverse", "range", "appendbit", "appendbits", "appendarray", "xor":
			if mixed {
				interesting = true
			}
		}
		c.Ops = append(c.Ops, op)
	}
	return c, interesting
}

func TestCheck(t *testing.T) {
	hx.Main(t, "C16", func(c *hx.Ctx) {
		c.Register("bitmatrix_ops", checkMatrixCase)
		c.Register("bitarray_ops", checkArrayCase)
	}, func(c *hx.Ctx) {
		mprop := func(sub string, w, h int) func(t *rapid.T) {
			return func(t *rapid.T) {
				cs, nt := genMatrixCase(t, w, h)
				var ops []string
				for _, o := range cs.Ops {
					ops = append(ops, o.Op)
				}
				raw, _ := json.Marshal(cs)
				c.Note(sub, wclass(cs.W)+";"+opKinds(ops), nt, hx.Hash(raw), func() any { return cs })
				if err := c.Eval("bitmatrix_ops", cs); err != nil {
					t.Fatalf("%v", err)
				}
			}
		}
		aprop := func(sub string, size int) func(t *rapid.T) {
			return func(t *rapid.T) {
				cs, nt := genArrayCase(t, size)
				var ops []string
				for _, o := range cs.Ops {
					ops = append(ops, o.Op)
				}
				cl := "size=other"
				switch {
				case cs.Size <= 0:
					cl = "size=0"
				case cs.Size%32 == 0:
					cl = "sizemod32=0"
				}
				raw, _ := json.Marshal(cs)
				c.Note(sub, cl+";"+opKinds(ops), nt, hx.Hash(raw), func() any { return cs })
				if err := c.Eval("bitarray_ops", cs); err != nil {
					t.Fatalf("%v", err)
				}
			}
		}
		// every (w,h) in 1..130 x 1..8 and every size 0..200, a fixed quota each
		per := c.N(3, 24)
		idx := 0
		for w := 1; w <= 130; w++ {
			for h := 1; h <= 8; h++ {
				if c.Mine(idx) {
					c.RapidIdx("bitmatrix_alldims", idx, per, 20, mprop("bitmatrix_alldims", w, h))
				}
				idx++
			}
		}
		c.SetExhaustive("bitmatrix_alldims", false)
		for s := -1; s <= 200; s++ {
			if c.Mine(s + 1) {
				c.RapidIdx("bitarray_allsizes", s+1, c.N(12, 60), 20, aprop("bitarray_allsizes", s))
			}
		}
		// free search with weighted dimensions
		c.Rapid("bitmatrix_random", c.N(2500, 60000), mprop("bitmatrix_random", 0, 0))
		c.Rapid("bitarray_random", c.N(4000, 90000), aprop("bitarray_random", -2))
	})
}
