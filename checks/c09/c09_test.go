// C09: located symbols are never misread; orientation and mirroring are handled.
package c09

import (
	"encoding/json"
	"errors"
	"fmt"
	"math"
	"strings"
	"testing"

	"github.com/makiuchi-d/gozxing"
	"github.com/makiuchi-d/gozxing/datamatrix"
	"github.com/makiuchi-d/gozxing/oned"
	"github.com/makiuchi-d/gozxing/qrcode"
	"github.com/makiuchi-d/gozxing/qrcode/decoder"
	"github.com/makiuchi-d/gozxing/qrcode/encoder"
	"pgregory.net/rapid"

	"verif/internal/hx"
	"verif/internal/imgx"
	"verif/internal/onedx"
	"verif/internal/qrx"
)

type Case struct {
	Sym       string `json:"sym"` // QR | DM | 1-D name
	Content   string `json:"content"`
	Canonical string `json:"canonical"`
	Pad       [4]int `json:"pad"` // left, top, right, bottom (px, applied after scaling)
	Scale     int    `json:"scale"`
	Rot       int    `json:"rot"` // quarter turns clockwise
	Mirror    bool   `json:"mirror"`
	TryHarder bool   `json:"try_harder"`
	Height    int    `json:"height"`                      // 1-D bar height requested from the writer
	Margin    int    `json:"margin"`                      // 1-D margin hint (-1 none)
	Positive  string `json:"positive,omitempty"`          // "", "rot180", "rot90", "transpose": assert the positive guarantee
	Callback  bool   `json:"callback,omitempty"`          // NEED_RESULT_POINT_CALLBACK
	CodabarSE bool   `json:"codabar_start_end,omitempty"` // RETURN_CODABAR_START_END
	Lengths   []int  `json:"allowed_lengths,omitempty"`   // ALLOWED_LENGTHS
	GS1       bool   `json:"assume_gs1,omitempty"`
	QRLevel   *int   `json:"qr_level,omitempty"`   // transpose cases: 0..3 = L M Q H (default M)
	QRMask    *int   `json:"qr_mask,omitempty"`    // transpose cases: forced mask pattern
	QRVersion int    `json:"qr_version,omitempty"` // transpose cases: forced version (0 = automatic)
}

func (c Case) hints() map[gozxing.DecodeHintType]interface{} {
	h := map[gozxing.DecodeHintType]interface{}{}
	if c.TryHarder {
		h[gozxing.DecodeHintType_TRY_HARDER] = true
	}
	if c.Callback {
		h[gozxing.DecodeHintType_NEED_RESULT_POINT_CALLBACK] = gozxing.ResultPointCallback(func(gozxing.ResultPoint) {})
	}
	if c.CodabarSE {
		h[gozxing.DecodeHintType_RETURN_CODABAR_START_END] = true
	}
	if c.Lengths != nil {
		h[gozxing.DecodeHintType_ALLOWED_LENGTHS] = c.Lengths
	}
	if c.GS1 {
		h[gozxing.DecodeHintType_ASSUME_GS1] = true
	}
	if len(h) == 0 {
		return nil
	}
	return h
}

func render(c Case) (*gozxing.BitMatrix, gozxing.Reader, gozxing.BarcodeFormat, error) {
	switch c.Sym {
	case "QR":
		bm, err := qrcode.NewQRCodeWriter().Encode(c.Content, gozxing.BarcodeFormat_QR_CODE, 0, 0, nil)
		return bm, qrcode.NewQRCodeReader(), gozxing.BarcodeFormat_QR_CODE, err
	case "DM":
		bm, err := datamatrix.NewDataMatrixWriter().Encode(c.Content, gozxing.BarcodeFormat_DATA_MATRIX, 0, 0, nil)
		return bm, datamatrix.NewDataMatrixReader(), gozxing.BarcodeFormat_DATA_MATRIX, err
	}
	s := onedx.SymByName(c.Sym)
	if s == nil {
		return nil, nil, 0, fmt.Errorf("hx: symbology %q", c.Sym)
	}
	h := map[gozxing.EncodeHintType]interface{}{}
	if c.Margin >= 0 {
		h[gozxing.EncodeHintType_MARGIN] = c.Margin
	}
	bm, err := s.Writer().Encode(c.Content, s.Format, 0, c.Height, h)
	return bm, s.Reader(), s.Format, err
}

func isReaderException(err error) bool {
	var re gozxing.ReaderException
	return errors.As(err, &re)
}

func check(raw json.RawMessage) error {
	var c Case
	if err := json.Unmarshal(raw, &c); err != nil {
		return fmt.Errorf("hx: %v", err)
	}
	desc := fmt.Sprintf("%s content=%q pad=%v scale=%d rot=%d mirror=%v tryharder=%v height=%d margin=%d callback=%v codabar_se=%v lengths=%v gs1=%v", c.Sym, c.Content, c.Pad, c.Scale, c.Rot*90, c.Mirror, c.TryHarder, c.Height, c.Margin, c.Callback, c.CodabarSE, c.Lengths, c.GS1)
	if c.Positive == "transpose" {
		level := decoder.ErrorCorrectionLevel_M
		var eh map[gozxing.EncodeHintType]interface{}
		if c.QRLevel != nil {
			level = qrx.LibLevel(*c.QRLevel)
		}
		if c.QRMask != nil {
			eh = map[gozxing.EncodeHintType]interface{}{gozxing.EncodeHintType_QR_MASK_PATTERN: *c.QRMask}
		}
		if c.QRVersion > 0 {
			if eh == nil {
				eh = map[gozxing.EncodeHintType]interface{}{}
			}
			eh[gozxing.EncodeHintType_QR_VERSION] = c.QRVersion
		}
		code, err := encoder.Encoder_encode(c.Content, level, eh)
		if err != nil {
			return fmt.Errorf("hx: %v", err)
		}
		if c.QRMask != nil && code.GetMaskPattern() != *c.QRMask {
			return fmt.Errorf("hx: mask hint not applied")
		}
		desc += fmt.Sprintf(" level=%v mask=%d version=%d", level, code.GetMaskPattern(), code.GetVersion().GetVersionNumber())
		upright := qrx.ByteMatrixToBits(code.GetMatrix())
		bits := imgx.Transpose(upright)
		res, err2 := decoder.NewDecoder().Decode(bits, nil)
		if err2 != nil {
			return fmt.Errorf("transposed QR module matrix not decoded: %v [%s]", err2, desc)
		}
		if res.GetText() != c.Content {
			return fmt.Errorf("transposed QR module matrix decoded as %q [%s]", res.GetText(), desc)
		}
		md, ok := res.GetOther().(*decoder.QRCodeDecoderMetaData)
		if !ok || md == nil || !md.IsMirrored() {
			return fmt.Errorf("transposed QR module matrix decoded but not flagged as mirrored [%s]", desc)
		}
		if c.Scale < 2 {
			return nil
		}
		// image level: the mirrored picture is read with the same content, and its result points are
		// those of the upright picture reflected (bottom-left and top-right keep their meaning)
		read := func(m *gozxing.BitMatrix) (*gozxing.Result, error) {
			img := imgx.Pad(imgx.Scale(m, c.Scale), c.Pad[0], c.Pad[1], c.Pad[2], c.Pad[3])
			bmp, _ := gozxing.NewBinaryBitmapFromImage(img)
			return qrcode.NewQRCodeReader().Decode(bmp, nil)
		}
		c.Pad[0], c.Pad[1] = c.Pad[0]+4*c.Scale, c.Pad[0]+4*c.Scale // same left and top padding: the transpose of the picture is the picture of the transpose
		c.Pad[2], c.Pad[3] = c.Pad[0], c.Pad[0]
		ru, eu := read(upright)
		rm, em := read(imgx.Transpose(upright)) // a fresh transpose: the decoder above unmasks and mirrors its argument in place
		if eu != nil || em != nil {
			// locating the picture is not what the mirrored guarantee is about (the property states it
			// for the module matrix); when either picture is not located there is nothing to compare
			return nil
		}
		if rm.GetText() != c.Content || ru.GetText() != c.Content {
			return fmt.Errorf("MISREAD: mirrored picture read as %q, upright as %q [%s]", rm.GetText(), ru.GetText(), desc)
		}
		pu, pm := ru.GetResultPoints(), rm.GetResultPoints()
		if len(pu) != len(pm) {
			return fmt.Errorf("upright read has %d result points, mirrored read %d [%s]", len(pu), len(pm), desc)
		}
		tol := 1.5 * float64(c.Scale)
		for i := range pu {
			if math.Abs(pm[i].GetX()-pu[i].GetY()) > tol || math.Abs(pm[i].GetY()-pu[i].GetX()) > tol {
				return fmt.Errorf("result point %d of the mirrored read is (%.1f,%.1f), the reflection of the upright read's point %d is (%.1f,%.1f): the corner order was not corrected for mirroring [%s]", i, pm[i].GetX(), pm[i].GetY(), i, pu[i].GetY(), pu[i].GetX(), desc)
			}
		}
		return nil
	}
	bm, reader, format, err := render(c)
	if err != nil {
		return fmt.Errorf("hx: writer: %v", err)
	}
	img := imgx.Scale(bm, c.Scale)
	if c.Mirror {
		img = imgx.FlipH(img)
	}
	img = imgx.Rotate(img, c.Rot)
	img = imgx.Pad(img, c.Pad[0], c.Pad[1], c.Pad[2], c.Pad[3])
	bmp, err := gozxing.NewBinaryBitmapFromImage(img)
	if err != nil {
		return fmt.Errorf("hx: bitmap: %v", err)
	}
	hints := c.hints()
	// what the image encodes under these hints: the canonical content, except that Codabar with
	// RETURN_CODABAR_START_END reports the guards as well (read off the untransformed writer output)
	want := c.Canonical
	if c.CodabarSE && c.Sym == "CODABAR" {
		ubmp, _ := gozxing.NewBinaryBitmapFromImage(bm)
		if ur, uerr := reader.Decode(ubmp, hints); uerr == nil {
			want = ur.GetText()
			if len(want) != len(c.Canonical)+2 || want[1:len(want)-1] != c.Canonical {
				return fmt.Errorf("upright Codabar read with RETURN_CODABAR_START_END gives %q for data %q [%s]", want, c.Canonical, desc)
			}
		}
	}
	res, err := reader.Decode(bmp, hints)
	if err != nil {
		if !isReaderException(err) {
			return fmt.Errorf("error is not a reader exception: %T %v [%s]", err, err, desc)
		}
		if c.Positive != "" {
			return fmt.Errorf("positive guarantee (%s): not read: %v [%s]", c.Positive, err, desc)
		}
		return nil
	}
	if res == nil {
		return fmt.Errorf("neither result nor error [%s]", desc)
	}
	if res.GetText() != want || res.GetBarcodeFormat() != format {
		return fmt.Errorf("MISREAD: returned %q (%v), the image encodes %q (%v) [%s]", res.GetText(), res.GetBarcodeFormat(), want, format, desc)
	}
	// ORIENTATION is documented as degrees clockwise in [0,360); a sideways read reports an odd
	// multiple of 90, an upside-down one 180
	if ov, has := res.GetResultMetadata()[gozxing.ResultMetadataType_ORIENTATION]; has {
		o, isInt := ov.(int)
		if !isInt || o < 0 || o >= 360 || o%90 != 0 {
			return fmt.Errorf("ORIENTATION metadata %v is outside the documented range [0,360) of quarter turns [%s]", ov, desc)
		}
		if c.Sym != "QR" && c.Sym != "DM" && !c.Mirror && (o/90)%2 != c.Rot%2 {
			return fmt.Errorf("ORIENTATION %d reported for a 1-D symbol rotated by %d degrees [%s]", o, c.Rot*90, desc)
		}
	} else if c.Sym != "QR" && c.Sym != "DM" && !c.Mirror && c.Rot == 2 {
		// (for a sideways read the property promises the content only)
		return fmt.Errorf("1-D symbol turned upside down read without ORIENTATION metadata [%s]", desc)
	}
	if c.Positive == "rot180" || c.Positive == "rot90" {
		// the same BinaryBitmap read a second time (by a fresh reader) must give the same answer:
		// nothing a read leaves behind in the bitmap may change the next read
		_, reader2, _, _ := render(c)
		res2, err2 := reader2.Decode(bmp, hints)
		if err2 != nil {
			return fmt.Errorf("second read of the same BinaryBitmap failed (%v) after a successful first read [%s]", err2, desc)
		}
		o1 := res.GetResultMetadata()[gozxing.ResultMetadataType_ORIENTATION]
		o2 := res2.GetResultMetadata()[gozxing.ResultMetadataType_ORIENTATION]
		if res2.GetText() != res.GetText() || o1 != o2 {
			return fmt.Errorf("second read of the same BinaryBitmap gives %q with ORIENTATION %v, the first read gave %q with ORIENTATION %v [%s]", res2.GetText(), o2, res.GetText(), o1, desc)
		}
	}
	if c.Positive == "rot180" {
		if o, _ := res.GetResultMetadata()[gozxing.ResultMetadataType_ORIENTATION].(int); o != 180 {
			return fmt.Errorf("upside-down 1-D symbol read without ORIENTATION 180 (metadata %v) [%s]", res.GetResultMetadata()[gozxing.ResultMetadataType_ORIENTATION], desc)
		}
	}
	return nil
}

// outcome runs the case once more to classify it for the evidence (decoded / error).
func outcome(c Case) string {
	bm, reader, _, err := render(c)
	if err != nil {
		return "writer_error"
	}
	img := imgx.Scale(bm, c.Scale)
	if c.Mirror {
		img = imgx.FlipH(img)
	}
	img = imgx.Pad(imgx.Rotate(img, c.Rot), c.Pad[0], c.Pad[1], c.Pad[2], c.Pad[3])
	bmp, _ := gozxing.NewBinaryBitmapFromImage(img)
	if _, err := reader.Decode(bmp, c.hints()); err != nil {
		return "not_read"
	}
	return "decoded"
}

var syms = []string{"QR", "DM", "EAN13", "EAN8", "UPCA", "UPCE", "ITF", "CODE39", "CODE93", "CODE128", "CODABAR"}

func content(sym string, rng *hx.Rng) (string, string) {
	switch sym {
	case "QR":
		opts := []string{"HELLO WORLD", "0123456789", "http://example.com/x?y=1", "aaaaaaaaaaaaaaaaaaaaaaaaaaaaaaaaaaaaaaaa", "1:1:3:1:1 ##### #####", "日本語テスト"}
		s := opts[rng.Intn(len(opts))]
		if rng.Bool() {
			n := 1 + rng.Intn(120)
			b := make([]byte, n)
			for i := range b {
				b[i] = byte(32 + rng.Intn(95))
			}
			s = string(b)
		}
		return s, s
	case "DM":
		n := 1 + rng.Intn(60)
		b := make([]byte, n)
		for i := range b {
			b[i] = "ABCDEFGHIJKLMNOPQRSTUVWXYZ0123456789 abcdef-.,"[rng.Intn(46)]
		}
		return string(b), string(b)
	}
	s, canon, _ := onedx.Content(sym, rng)
	if len(s) > 20 && sym != "ITF" && sym != "CODABAR" {
		s = s[:20]
		canon = s
		if sym == "CODE128" {
			// keep it simple after truncation: content is its own canonical form
		}
	}
	return s, canon
}

func TestCheck(t *testing.T) {
	hx.Main(t, "C09", func(c *hx.Ctx) {
		c.Register("pose", check)
		c.RegisterMatcher("upce-upside-down-misread", func(raw json.RawMessage, err error) bool {
			var cs Case
			if json.Unmarshal(raw, &cs) != nil || cs.Sym != "UPCE" || !strings.Contains(err.Error(), "MISREAD") {
				return false
			}
			// the misread number must be what the reversed module row alone decodes to
			bm, e := oned.NewUPCEWriter().Encode(cs.Content, gozxing.BarcodeFormat_UPC_E, 0, 1, map[gozxing.EncodeHintType]interface{}{gozxing.EncodeHintType_MARGIN: 24})
			if e != nil {
				return false
			}
			row := imgx.Scale(imgx.FlipH(bm), cs.Scale).GetRow(0, nil)
			rd := oned.NewUPCEReader().(interface {
				DecodeRow(int, *gozxing.BitArray, map[gozxing.DecodeHintType]interface{}) (*gozxing.Result, error)
			})
			res, e := rd.DecodeRow(0, row, nil)
			if e != nil {
				return false
			}
			return strings.Contains(err.Error(), fmt.Sprintf("returned %q", res.GetText()))
		})
	}, func(c *hx.Ctx) {
		for si, sym := range syms {
			sym := sym
			sub := "pose_" + sym
			c.RapidIdx(sub, si, c.N(250, 2000), 0, func(t *rapid.T) {
				rng := hx.NewRng(rapid.Uint64().Draw(t, "content"))
				cs := Case{Sym: sym, Margin: -1}
				cs.Content, cs.Canonical = content(sym, rng)
				cs.Scale = rapid.IntRange(1, 6).Draw(t, "scale")
				if sym == "QR" || sym == "DM" {
					if cs.Scale > 4 && len(cs.Content) > 40 {
						cs.Scale = 4
					}
				}
				cs.Rot = rapid.IntRange(0, 3).Draw(t, "rot")
				if rapid.IntRange(0, 2).Draw(t, "padmode") == 0 {
					for i := 0; i < 4; i++ {
						if rapid.Bool().Draw(t, "padded") {
							cs.Pad[i] = rapid.IntRange(0, 40).Draw(t, "pad")
						}
					}
				} else {
					// a quiet zone of at least two modules on every side
					for i := 0; i < 4; i++ {
						cs.Pad[i] = rapid.IntRange(2*cs.Scale, 2*cs.Scale+40).Draw(t, "padq")
					}
				}
				if sym == "QR" {
					cs.Mirror = rapid.IntRange(0, 3).Draw(t, "mirror") == 0
				}
				cs.TryHarder = rapid.Bool().Draw(t, "tryharder")
				cs.Callback = rapid.IntRange(0, 2).Draw(t, "callback") == 0
				if sym == "CODABAR" {
					cs.CodabarSE = rapid.Bool().Draw(t, "codabar_se")
				}
				if sym == "ITF" && rapid.Bool().Draw(t, "lengths") {
					cs.Lengths = []int{len(cs.Canonical)}
				}
				if sym == "CODE128" {
					cs.GS1 = rapid.IntRange(0, 3).Draw(t, "gs1") == 0
				}
				if sym != "QR" && sym != "DM" {
					cs.Height = rapid.SampledFrom([]int{1, 5, 20, 40, 60}).Draw(t, "height")
					if rapid.Bool().Draw(t, "margin") {
						cs.Margin = rapid.IntRange(9, 30).Draw(t, "m")
						if sym != "EAN13" && sym != "EAN8" && sym != "UPCA" && sym != "UPCE" && cs.Margin < 10 {
							cs.Margin = 10
						}
					}
				}
				oc := "skipped"
				if !hx.Aborted() {
					oc = outcome(cs)
				}
				cl := fmt.Sprintf("rot=%d;outcome=%s", cs.Rot*90, oc)
				if cs.Mirror {
					cl += ";mirrored"
				}
				if cs.TryHarder {
					cl += ";try_harder"
				}
				raw, _ := json.Marshal(cs)
				c.Note(sub, cl, oc == "decoded", hx.Hash(raw), func() any { return cs })
				if err := c.Eval("pose", cs); err != nil {
					t.Fatalf("%v", err)
				}
			})
		}
		// positive guarantees
		c.Rapid("positive_1d_upside_down", c.N(900, 9000), func(t *rapid.T) {
			sym := rapid.SampledFrom(syms[2:]).Draw(t, "sym")
			rng := hx.NewRng(rapid.Uint64().Draw(t, "content"))
			cs := Case{Sym: sym, Margin: -1, Rot: 2, Positive: "rot180", Scale: rapid.IntRange(1, 3).Draw(t, "scale"), Height: rapid.SampledFrom([]int{1, 10, 40}).Draw(t, "h")}
			cs.Content, cs.Canonical = content(sym, rng)
			if sym == "UPCE" {
				cs.Margin = 13 // default margin: known finding upce-trailing-quiet-zone (C03)
			}
			cs.TryHarder = rapid.Bool().Draw(t, "tryharder")
			cs.Callback = rapid.Bool().Draw(t, "callback")
			if sym == "CODABAR" {
				cs.CodabarSE = rapid.Bool().Draw(t, "codabar_se")
			}
			if sym == "ITF" && rapid.Bool().Draw(t, "lengths") {
				cs.Lengths = []int{len(cs.Canonical)}
			}
			raw, _ := json.Marshal(cs)
			c.Note("positive_1d_upside_down", "sym="+sym, true, hx.Hash(raw), func() any { return cs })
			if err := c.Eval("pose", cs); err != nil {
				t.Fatalf("%v", err)
			}
		})
		c.Rapid("positive_1d_sideways_try_harder", c.N(600, 6000), func(t *rapid.T) {
			sym := rapid.SampledFrom(syms[2:]).Draw(t, "sym")
			rng := hx.NewRng(rapid.Uint64().Draw(t, "content"))
			cs := Case{Sym: sym, Margin: -1, Rot: rapid.SampledFrom([]int{1, 3}).Draw(t, "rot"), Positive: "rot90", TryHarder: true,
				Scale: rapid.IntRange(1, 3).Draw(t, "scale"), Height: rapid.SampledFrom([]int{20, 40, 60}).Draw(t, "h")}
			cs.Content, cs.Canonical = content(sym, rng)
			if sym == "UPCE" {
				cs.Margin = 13
			}
			raw, _ := json.Marshal(cs)
			c.Note("positive_1d_sideways_try_harder", fmt.Sprintf("sym=%s;rot=%d", sym, cs.Rot*90), true, hx.Hash(raw), func() any { return cs })
			if err := c.Eval("pose", cs); err != nil {
				t.Fatalf("%v", err)
			}
		})
		// every (level, mask) pair transposed, with module matrices of several versions and the image path
		{
			rng := hx.NewRng(c.Seed("transposed_formats", 0))
			idx := 0
			for rep := 0; rep < c.N(2, 12); rep++ {
				for lv := 0; lv < 4; lv++ {
					for mk := 0; mk < 8; mk++ {
						idx++
						if !c.Mine(idx) {
							continue
						}
						l, m := lv, mk
						cs := Case{Sym: "QR", Positive: "transpose", Scale: 1 + (idx+rep)%3, QRLevel: &l, QRMask: &m}
						cs.Content, cs.Canonical = content("QR", rng)
						raw, _ := json.Marshal(cs)
						c.Note("positive_qr_transposed_all_formats", fmt.Sprintf("level=%d;mask=%d;image_path=%v", lv, mk, cs.Scale >= 2), true, hx.Hash(raw), func() any { return cs })
						if !c.Enum("positive_qr_transposed_all_formats", "pose", cs, nil) {
							break
						}
					}
				}
			}
		}
		// every version 1..40 transposed (version information is read through the mirrored path for 7+)
		{
			idx := 0
			for v := 1; v <= 40; v++ {
				for _, lv := range []int{0, 2} {
					idx++
					if !c.Mine(idx) {
						continue
					}
					l := lv
					cs := Case{Sym: "QR", Positive: "transpose", Scale: 1, QRLevel: &l, QRVersion: v, Content: fmt.Sprintf("V%02d", v), Canonical: fmt.Sprintf("V%02d", v)}
					raw, _ := json.Marshal(cs)
					c.Note("positive_qr_transposed_all_versions", fmt.Sprintf("level=%d", lv), true, hx.Hash(raw), func() any { return cs })
					c.Enum("positive_qr_transposed_all_versions", "pose", cs, nil)
				}
			}
			c.SetExhaustive("positive_qr_transposed_all_versions", true)
		}
		c.Rapid("positive_qr_transposed", c.N(400, 4000), func(t *rapid.T) {
			rng := hx.NewRng(rapid.Uint64().Draw(t, "content"))
			cs := Case{Sym: "QR", Positive: "transpose", Scale: 1}
			cs.Content, cs.Canonical = content("QR", rng)
			raw, _ := json.Marshal(cs)
			c.Note("positive_qr_transposed", "", true, hx.Hash(raw), func() any { return cs })
			if err := c.Eval("pose", cs); err != nil {
				t.Fatalf("%v", err)
			}
		})
	})
}
