// C05: damaged QR / Data Matrix symbols decode exactly, up to the promised capacity.
package c05

import (
	"encoding/json"
	"fmt"
	"math/bits"
	"strings"
	"testing"

	"github.com/makiuchi-d/gozxing"
	"github.com/makiuchi-d/gozxing/datamatrix"
	dmdec "github.com/makiuchi-d/gozxing/datamatrix/decoder"
	"github.com/makiuchi-d/gozxing/qrcode/decoder"
	"github.com/makiuchi-d/gozxing/qrcode/encoder"
	"pgregory.net/rapid"

	"verif/internal/dmref"
	"verif/internal/dmx"
	"verif/internal/hx"
	"verif/internal/qrref"
	"verif/internal/qrx"
)

// ---------------------------------------------------------------- QR symbols

type QRCase struct {
	V      int      `json:"v"`
	Level  int      `json:"level"`
	Mask   int      `json:"mask"`
	Text   string   `json:"text"`
	Faults [][2]int `json:"faults"`         // (final codeword index, xor value 1..255)
	Fmt1   []int    `json:"fmt1,omitempty"` // flipped bit indices of format copy 1 (<= 3)
	Fmt2   []int    `json:"fmt2,omitempty"`
	Ver1   []int    `json:"ver1,omitempty"` // flipped bits of version copy 1 (bottom-left), <= 3
	Ver2   []int    `json:"ver2,omitempty"`
}

func qrText(v, level int, rng *hx.Rng, full bool) string {
	mode := []int{qrref.Numeric, qrref.Alnum, qrref.Byte}[rng.Intn(3)]
	cp := qrref.Capacity(mode, v, level, 0)
	n := cp
	if !full {
		n = 1 + rng.Intn(cp)
	}
	return qrx.Payload(mode, n, rng, 0)
}

func checkQR(raw json.RawMessage) error {
	var c QRCase
	if err := json.Unmarshal(raw, &c); err != nil {
		return fmt.Errorf("hx: %v", err)
	}
	hints := map[gozxing.EncodeHintType]interface{}{gozxing.EncodeHintType_QR_VERSION: c.V, gozxing.EncodeHintType_QR_MASK_PATTERN: c.Mask}
	code, werr := encoder.Encoder_encode(c.Text, qrx.LibLevel(c.Level), hints)
	if werr != nil {
		return fmt.Errorf("hx: encode failed: %v", werr)
	}
	bm := qrx.ByteMatrixToBits(code.GetMatrix())
	// fault budget per block, from the reference block structure
	bi := qrref.Blocks(c.V, c.Level)
	dataCW := make([]byte, qrref.DataCodewords(c.V, c.Level))
	_, pos := qrref.Interleave(dataCW, c.V, c.Level)
	perBlock := make([]int, bi.NumBlocks())
	seen := map[int]bool{}
	mods := qrref.CodewordModules(c.V)
	for _, f := range c.Faults {
		if f[0] < 0 || f[0] >= len(pos) || f[1] < 1 || f[1] > 255 || seen[f[0]] {
			return fmt.Errorf("hx: bad fault %v", f)
		}
		seen[f[0]] = true
		perBlock[pos[f[0]].Block]++
		for b := 0; b < 8; b++ {
			if f[1]&(0x80>>uint(b)) != 0 {
				bm.Flip(mods[f[0]][b][0], mods[f[0]][b][1])
			}
		}
	}
	for b, n := range perBlock {
		if n > bi.EcPerBlock/2 {
			return fmt.Errorf("hx: %d faults in block %d exceed t=%d", n, b, bi.EcPerBlock/2)
		}
	}
	if len(c.Fmt1) > 3 || len(c.Fmt2) > 3 || len(c.Ver1) > 3 || len(c.Ver2) > 3 {
		return fmt.Errorf("hx: too many format/version flips")
	}
	f1, f2 := qrref.FormatPositions(qrref.Size(c.V))
	for _, i := range c.Fmt1 {
		bm.Flip(f1[i][0], f1[i][1])
	}
	for _, i := range c.Fmt2 {
		bm.Flip(f2[i][0], f2[i][1])
	}
	if c.V >= 7 {
		v1, v2 := qrref.VersionPositions(qrref.Size(c.V))
		for _, i := range c.Ver1 {
			bm.Flip(v1[i][0], v1[i][1])
		}
		for _, i := range c.Ver2 {
			bm.Flip(v2[i][0], v2[i][1])
		}
	}
	res, err := decoder.NewDecoder().Decode(bm, nil)
	desc := fmt.Sprintf("version %d-%s mask %d, %d corrupted codewords (per block %v, t=%d), format flips %v/%v, version flips %v/%v", c.V, qrref.LevelNames[c.Level], c.Mask, len(c.Faults), perBlock, bi.EcPerBlock/2, c.Fmt1, c.Fmt2, c.Ver1, c.Ver2)
	if err != nil {
		return fmt.Errorf("decode failed within the promised correction capacity: %v [%s]", err, desc)
	}
	if res.GetText() != c.Text {
		return fmt.Errorf("decoded text differs from the original [%s]", desc)
	}
	if res.GetECLevel() != qrref.LevelNames[c.Level] {
		return fmt.Errorf("decoded ec level %q [%s]", res.GetECLevel(), desc)
	}
	return nil
}

// --------------------------------------------------- format / version words

type WordCase struct {
	Kind  string `json:"kind"` // "format" | "version"
	Level int    `json:"level,omitempty"`
	Mask  int    `json:"mask,omitempty"`
	V     int    `json:"v,omitempty"`
	E1    int    `json:"e1"` // error pattern copy 1 (<= 3 bits)
	E2    int    `json:"e2"` // error pattern copy 2 (format only)
}

func checkWord(raw json.RawMessage) error {
	var c WordCase
	if err := json.Unmarshal(raw, &c); err != nil {
		return fmt.Errorf("hx: %v", err)
	}
	if bits.OnesCount(uint(c.E1)) > 3 || bits.OnesCount(uint(c.E2)) > 3 {
		return fmt.Errorf("hx: too many flips")
	}
	if c.Kind == "format" {
		w := qrref.FormatWord(c.Level, c.Mask)
		fi := decoder.FormatInformation_DecodeFormatInformation(uint(w^c.E1), uint(w^c.E2))
		if fi == nil {
			return fmt.Errorf("format word (%s, mask %d) with error patterns %#x / %#x (<= 3 bits per copy) not decoded", qrref.LevelNames[c.Level], c.Mask, c.E1, c.E2)
		}
		if qrx.LevelIndex(fi.GetErrorCorrectionLevel()) != c.Level || int(fi.GetDataMask()) != c.Mask {
			return fmt.Errorf("format word (%s, mask %d) with error patterns %#x / %#x decoded as (%v, mask %d)", qrref.LevelNames[c.Level], c.Mask, c.E1, c.E2, fi.GetErrorCorrectionLevel(), fi.GetDataMask())
		}
		return nil
	}
	w := qrref.VersionWord(c.V)
	ver, err := decoder.Version_decodeVersionInformation(w ^ c.E1)
	if err != nil || ver == nil {
		return fmt.Errorf("version word of v%d with error pattern %#x (<= 3 bits) not decoded: %v", c.V, c.E1, err)
	}
	if ver.GetVersionNumber() != c.V {
		return fmt.Errorf("version word of v%d with error pattern %#x decoded as v%d", c.V, c.E1, ver.GetVersionNumber())
	}
	return nil
}

func patterns(nbits, maxw int) []int {
	var out []int
	for p := 0; p < 1<<uint(nbits); p++ {
		if bits.OnesCount(uint(p)) <= maxw {
			out = append(out, p)
		}
	}
	return out
}

// --------------------------------------------------------------- Data Matrix

type DMCase struct {
	Size   int      `json:"size"`
	Text   string   `json:"text"`
	Faults [][2]int `json:"faults"` // (codeword index in data+ec stream, xor value)
}

func dmText(a dmref.Attr, rng *hx.Rng, full bool) string {
	// digits pair up (2 per codeword), letters take one codeword each in ASCII mode;
	// keep well inside the capacity so that the text fits whatever encodation is chosen
	n := a.Data - 1
	if !full {
		n = 1 + rng.Intn(a.Data)
	}
	if n < 1 {
		n = 1
	}
	var sb strings.Builder
	for i := 0; i < n; i++ {
		sb.WriteByte("ABCDEFGHJKLMNPQRSTUVWXYZ"[rng.Intn(24)])
		if i%5 == 4 {
			sb.WriteByte(' ')
			i++
		}
	}
	s := sb.String()
	if len(s) > n {
		s = s[:n]
	}
	return s
}

func checkDM(raw json.RawMessage) error {
	var c DMCase
	if err := json.Unmarshal(raw, &c); err != nil {
		return fmt.Errorf("hx: %v", err)
	}
	a := dmref.Sizes[c.Size]
	bm, err := datamatrix.NewDataMatrixWriter().Encode(c.Text, gozxing.BarcodeFormat_DATA_MATRIX, 0, 0, dmx.ForceHints(a))
	if err != nil {
		return fmt.Errorf("hx: encode failed: %v", err)
	}
	if bm.GetWidth() != a.Cols || bm.GetHeight() != a.Rows {
		return fmt.Errorf("hx: unexpected symbol size %dx%d", bm.GetHeight(), bm.GetWidth())
	}
	blk := dmref.BlockOf(a)
	mods := dmref.CodewordModules(a)
	perBlock := make([]int, a.Blocks)
	seen := map[int]bool{}
	for _, f := range c.Faults {
		if f[0] < 0 || f[0] >= len(blk) || f[1] < 1 || f[1] > 255 || seen[f[0]] {
			return fmt.Errorf("hx: bad fault %v", f)
		}
		seen[f[0]] = true
		perBlock[blk[f[0]].Block]++
		for b := 0; b < 8; b++ {
			if f[1]&(0x80>>uint(b)) != 0 {
				bm.Flip(mods[f[0]][b][0], mods[f[0]][b][1])
			}
		}
	}
	for b, n := range perBlock {
		if n > a.ECPerBlock()/2 {
			return fmt.Errorf("hx: %d faults in block %d exceed t=%d", n, b, a.ECPerBlock()/2)
		}
	}
	res, err := dmdec.NewDecoder().Decode(bm)
	desc := fmt.Sprintf("%s, %d corrupted codewords (per block %v, t=%d)", dmx.SizeName(a), len(c.Faults), perBlock, a.ECPerBlock()/2)
	if err != nil {
		return fmt.Errorf("decode failed within the promised correction capacity: %v [%s]", err, desc)
	}
	if res.GetText() != c.Text {
		return fmt.Errorf("decoded text %q differs from the original %q [%s]", res.GetText(), c.Text, desc)
	}
	return nil
}

// ---------------------------------------------------------------------------

func sampleQR(c QRCase) any {
	s := c
	if len(s.Text) > 40 {
		s.Text = s.Text[:40] + "..."
	}
	if len(s.Faults) > 12 {
		s.Faults = s.Faults[:12]
	}
	return s
}

func sampleDM(c DMCase) any {
	s := c
	if len(s.Text) > 40 {
		s.Text = s.Text[:40] + "..."
	}
	if len(s.Faults) > 12 {
		s.Faults = s.Faults[:12]
	}
	return s
}

// multiFaultsQR draws, per block, a fault count from {0, 1, t-1, t} and positions.
func multiFaults(t *rapid.T, blockOf func(i int) int, total, nblocks, tcap int) [][2]int {
	byBlock := make([][]int, nblocks)
	for i := 0; i < total; i++ {
		b := blockOf(i)
		byBlock[b] = append(byBlock[b], i)
	}
	var out [][2]int
	mode := rapid.IntRange(0, 3).Draw(t, "faultmode")
	for b := 0; b < nblocks; b++ {
		var n int
		switch mode {
		case 0:
			n = tcap
		case 1:
			n = rapid.SampledFrom([]int{0, 1, tcap - 1, tcap}).Draw(t, "nf")
		case 2:
			n = rapid.IntRange(0, tcap).Draw(t, "nf2")
		default:
			if b == rapid.IntRange(0, nblocks-1).Draw(t, "oneblock") {
				n = tcap
			}
		}
		if n < 0 {
			n = 0
		}
		idxs := byBlock[b]
		if n > len(idxs) {
			n = len(idxs)
		}
		// partial Fisher-Yates driven by rapid draws
		perm := append([]int(nil), idxs...)
		for k := 0; k < n; k++ {
			j := rapid.IntRange(k, len(perm)-1).Draw(t, "pick")
			perm[k], perm[j] = perm[j], perm[k]
			out = append(out, [2]int{perm[k], rapid.IntRange(1, 255).Draw(t, "xor")})
		}
	}
	return out
}

func TestCheck(t *testing.T) {
	hx.Main(t, "C05", func(c *hx.Ctx) {
		c.Register("qr", checkQR)
		c.Register("word", checkWord)
		c.Register("dm", checkDM)
	}, func(c *hx.Ctx) {
		// (1) format words: every subset of <= 3 bits in copy 1 x {clean, same, independent} copy 2
		p15 := patterns(15, 3)
		p18 := patterns(18, 3)
		var n int64
		stop := false
		idx := 0
		for l := 0; l < 4 && !stop; l++ {
			for m := 0; m < 8 && !stop; m++ {
				for i, e1 := range p15 {
					idx++
					if !c.Mine(idx) {
						continue
					}
					e2s := []int{0, e1, p15[(i*7+l*8+m+int(c.P.Seed))%len(p15)], p15[len(p15)-1-i]}
					for _, e2 := range e2s {
						cs := WordCase{Kind: "format", Level: l, Mask: m, E1: e1, E2: e2}
						if err := hx.Safe(func() error { raw, _ := json.Marshal(cs); return checkWord(raw) }); err != nil {
							stop = !c.Enum("format_words", "word", cs, nil)
							break
						}
						n++
					}
				}
			}
		}
		c.NoteBulk("format_words", "", n, n-int64(n/int64(len(p15)*4)), func() any { return WordCase{Kind: "format", Level: 2, Mask: 5, E1: 0x4101, E2: 0x0038} })
		c.SetExhaustive("format_words", true)
		n = 0
		stop = false
		for v := 7; v <= 40 && !stop; v++ {
			for _, e1 := range p18 {
				idx++
				if !c.Mine(idx) {
					continue
				}
				cs := WordCase{Kind: "version", V: v, E1: e1}
				if err := hx.Safe(func() error { raw, _ := json.Marshal(cs); return checkWord(raw) }); err != nil {
					stop = !c.Enum("version_words", "word", cs, nil)
					break
				}
				n++
			}
		}
		c.NoteBulk("version_words", "", n, n-1, func() any { return WordCase{Kind: "version", V: 23, E1: 0x20401} })
		c.SetExhaustive("version_words", true)

		// (2) QR single-codeword faults: every position of every block (thorough) / strided (quick)
		idx = 0
		for v := 1; v <= 40; v++ {
			for l := 0; l < 4; l++ {
				idx++
				if !c.Mine(idx) {
					continue
				}
				always := (v == 1 && l == 0) || (v == 7 && l == 3) || (v == 40) || (v == 5 && l == 2)
				if !c.Thorough() && !always && (idx+int(c.P.Seed))%4 != 0 {
					continue
				}
				rng := hx.NewRng(c.Seed("qr1", idx))
				text := qrText(v, l, rng, true)
				total := qrref.TotalCodewords(v)
				stride := 1
				if !c.Thorough() {
					stride = total/120 + 1
				}
				_, pos := qrref.Interleave(make([]byte, qrref.DataCodewords(v, l)), v, l)
				bi := qrref.Blocks(v, l)
				for i := rng.Intn(stride); i < total; i += stride {
					cs := QRCase{V: v, Level: l, Mask: (idx + i) % 8, Text: text, Faults: [][2]int{{i, 1 + rng.Intn(255)}}}
					cl := "data"
					if pos[i].IsEC {
						cl = "parity"
					}
					if pos[i].Block >= bi.NumShort {
						cl += ";long_block"
					} else {
						cl += ";short_block"
					}
					c.Note("qr_single_codeword", fmt.Sprintf("v=%d-%s;%s", v, qrref.LevelNames[l], cl), true, hx.HashS("qr1", fmt.Sprint(v, l, i, cs.Faults[0][1])), func() any { return sampleQR(cs) })
					if !c.Enum("qr_single_codeword", "qr", cs, nil) {
						break
					}
				}
			}
		}
		c.SetExhaustive("qr_single_codeword", c.Thorough())

		// (3) QR multi-fault cases with format / version damage (rapid)
		c.Rapid("qr_multi_fault", c.N(250, 6000), func(t *rapid.T) {
			v := rapid.IntRange(1, 40).Draw(t, "v")
			if rapid.IntRange(0, 2).Draw(t, "small") > 0 {
				v = rapid.IntRange(1, 14).Draw(t, "vs")
			}
			l := rapid.IntRange(0, 3).Draw(t, "level")
			rng := hx.NewRng(rapid.Uint64().Draw(t, "payload"))
			cs := QRCase{V: v, Level: l, Mask: rapid.IntRange(0, 7).Draw(t, "mask"), Text: qrText(v, l, rng, rapid.Bool().Draw(t, "full"))}
			bi := qrref.Blocks(v, l)
			_, pos := qrref.Interleave(make([]byte, qrref.DataCodewords(v, l)), v, l)
			cs.Faults = multiFaults(t, func(i int) int { return pos[i].Block }, len(pos), bi.NumBlocks(), bi.EcPerBlock/2)
			flips := func(n int, label string) []int {
				k := rapid.IntRange(0, 3).Draw(t, label+"n")
				seen := map[int]bool{}
				var out []int
				for len(out) < k {
					b := rapid.IntRange(0, n-1).Draw(t, label)
					if !seen[b] {
						seen[b] = true
						out = append(out, b)
					}
				}
				return out
			}
			if rapid.Bool().Draw(t, "fmtdamage") {
				cs.Fmt1, cs.Fmt2 = flips(15, "f1"), flips(15, "f2")
			}
			if v >= 7 && rapid.Bool().Draw(t, "verdamage") {
				cs.Ver1, cs.Ver2 = flips(18, "v1"), flips(18, "v2")
			}
			cl := fmt.Sprintf("level=%s", qrref.LevelNames[l])
			if len(cs.Fmt1)+len(cs.Fmt2) > 0 {
				cl += ";format_damage"
			}
			if len(cs.Ver1)+len(cs.Ver2) > 0 {
				cl += ";version_damage"
			}
			if len(cs.Faults) >= bi.NumBlocks()*(bi.EcPerBlock/2) {
				cl += ";all_blocks_at_capacity"
			}
			if bi.NumLong > 0 {
				cl += ";two_block_lengths"
			}
			raw, _ := json.Marshal(cs)
			c.Note("qr_multi_fault", cl, len(cs.Faults)+len(cs.Fmt1)+len(cs.Fmt2)+len(cs.Ver1)+len(cs.Ver2) > 0, hx.Hash(raw), func() any { return sampleQR(cs) })
			if err := c.Eval("qr", cs); err != nil {
				t.Fatalf("%v", err)
			}
		})

		// (4) Data Matrix single-codeword faults over every position of every size
		for si, a := range dmref.Sizes {
			if !c.Mine(si) {
				continue
			}
			rng := hx.NewRng(c.Seed("dm1", si))
			text := dmText(a, rng, true)
			total := a.Data + a.EC
			stride := 1
			if !c.Thorough() {
				stride = total/100 + 1
			}
			blk := dmref.BlockOf(a)
			for i := rng.Intn(stride); i < total; i += stride {
				cs := DMCase{Size: si, Text: text, Faults: [][2]int{{i, 1 + rng.Intn(255)}}}
				cl := "data"
				if blk[i].IsEC {
					cl = "parity"
				}
				c.Note("dm_single_codeword", "size="+dmx.SizeName(a)+";"+cl, true, hx.HashS("dm1", fmt.Sprint(si, i, cs.Faults[0][1])), func() any { return sampleDM(cs) })
				if !c.Enum("dm_single_codeword", "dm", cs, nil) {
					break
				}
			}
		}
		c.SetExhaustive("dm_single_codeword", c.Thorough())

		// (5) Data Matrix multi-fault (rapid)
		c.Rapid("dm_multi_fault", c.N(400, 9000), func(t *rapid.T) {
			si := rapid.IntRange(0, len(dmref.Sizes)-1).Draw(t, "size")
			a := dmref.Sizes[si]
			rng := hx.NewRng(rapid.Uint64().Draw(t, "payload"))
			cs := DMCase{Size: si, Text: dmText(a, rng, rapid.Bool().Draw(t, "full"))}
			blk := dmref.BlockOf(a)
			cs.Faults = multiFaults(t, func(i int) int { return blk[i].Block }, len(blk), a.Blocks, a.ECPerBlock()/2)
			cl := "size=" + dmx.SizeName(a)
			if len(cs.Faults) >= a.Blocks*(a.ECPerBlock()/2) {
				cl += ";all_blocks_at_capacity"
			}
			raw, _ := json.Marshal(cs)
			c.Note("dm_multi_fault", cl, len(cs.Faults) > 0, hx.Hash(raw), func() any { return sampleDM(cs) })
			if err := c.Eval("dm", cs); err != nil {
				t.Fatalf("%v", err)
			}
		})
	})
}
