// C17: luminance views are consistent and bilevel images binarise exactly.
package c17

import (
	"encoding/json"
	"errors"
	"fmt"
	"image"
	"image/color"
	"strings"
	"testing"

	"github.com/makiuchi-d/gozxing"
	"github.com/makiuchi-d/gozxing/datamatrix"
	"github.com/makiuchi-d/gozxing/qrcode"
	"pgregory.net/rapid"

	"verif/internal/hx"
	"verif/internal/onedx"
)

type Op struct {
	Op string `json:"op"` // crop | invert | rotate | bbcrop | bbrotate
	A  []int  `json:"a,omitempty"`
}

type Case struct {
	Kind   string `json:"kind"` // gray | rgba | nrgba | rgba64 | paletted | subimage | rgbints | yuv
	W      int    `json:"w"`
	H      int    `json:"h"`
	Pixels string `json:"pixels"` // noise | bilevel | gradient | symbol:<name>
	Seed   uint64 `json:"seed"`
	// yuv / subimage: the view inside a larger buffer
	OffX, OffY, PadR, PadB int    `json:"-"`
	Off                    []int  `json:"off,omitempty"` // offX, offY, padRight, padBottom
	Reverse                bool   `json:"reverse,omitempty"`
	Ops                    []Op   `json:"ops"`
	Binarizer              string `json:"binarizer,omitempty"` // "", "global", "hybrid": also check binarisation of the final view
}

// model: underlying 2-D array + view rectangle + inversion flag.
type model struct {
	u          [][]byte // underlying data [row][col]
	l, t, w, h int
	inv        bool
}

func (m *model) at(x, y int) byte {
	v := m.u[m.t+y][m.l+x]
	if m.inv {
		return 255 - v
	}
	return v
}

func grayOf(c Case, x, y int, rng func(x, y int) uint64) byte {
	switch {
	case c.Pixels == "bilevel":
		if rng(x, y)&1 == 0 {
			return 0
		}
		return 255
	case strings.HasPrefix(c.Pixels, "blocks:"):
		// solid black / white blocks of k x k pixels (large uniform areas, also at the image edges)
		k := 8
		fmt.Sscanf(c.Pixels[7:], "%d", &k)
		if k < 1 {
			k = 1
		}
		if rng(x/k, y/k)&1 == 0 {
			return 0
		}
		return 255
	case c.Pixels == "black":
		return 0
	case c.Pixels == "white":
		return 255
	case strings.HasPrefix(c.Pixels, "blackframe:"):
		// white-on-black picture: a black margin of m pixels around bilevel noise
		m := 40
		fmt.Sscanf(c.Pixels[11:], "%d", &m)
		if x < m || y < m {
			return 0
		}
		if rng(x/3, y/3)&1 == 0 {
			return 0
		}
		return 255
	case c.Pixels == "gradient":
		return byte((x*7 + y*13) % 256)
	default:
		return byte(rng(x, y) >> 8)
	}
}

func symbolImage(name string, seed uint64) *gozxing.BitMatrix {
	rng := hx.NewRng(seed)
	scale := 1 + rng.Intn(4)
	switch name {
	case "QR":
		bm, _ := qrcode.NewQRCodeWriter().Encode("HELLO 123 "+fmt.Sprint(seed%1000), gozxing.BarcodeFormat_QR_CODE, (29)*scale, (29)*scale, nil)
		return bm
	case "DM":
		bm, _ := datamatrix.NewDataMatrixWriter().Encode("ABC"+fmt.Sprint(seed%100000), gozxing.BarcodeFormat_DATA_MATRIX, 20*scale, 20*scale, nil)
		return bm
	}
	s := onedx.SymByName(name)
	content, _, _ := onedx.Content(name, rng)
	if len(content) > 12 && name != "ITF" {
		content = content[:12]
		if name == "CODABAR" {
			content = "A123456B"
		}
	}
	bm, err := s.Writer().Encode(content, s.Format, 0, 20+rng.Intn(30), nil)
	if err != nil {
		return nil
	}
	out, _ := gozxing.NewBitMatrix(bm.GetWidth()*scale, bm.GetHeight())
	for y := 0; y < bm.GetHeight(); y++ {
		for x := 0; x < bm.GetWidth(); x++ {
			if bm.Get(x, y) {
				out.SetRegion(x*scale, y, scale, 1)
			}
		}
	}
	return out
}

// build creates the library source and the model of its full view.
func build(c Case) (gozxing.LuminanceSource, *model, error) {
	offX, offY, padR, padB := 0, 0, 0, 0
	if len(c.Off) == 4 {
		offX, offY, padR, padB = c.Off[0], c.Off[1], c.Off[2], c.Off[3]
	}
	w, h := c.W, c.H
	var sym *gozxing.BitMatrix
	if len(c.Pixels) > 7 && c.Pixels[:7] == "symbol:" {
		sym = symbolImage(c.Pixels[7:], c.Seed)
		if sym == nil {
			return nil, nil, fmt.Errorf("hx: symbol")
		}
		w, h = sym.GetWidth(), sym.GetHeight()
	}
	noise := func(x, y int) uint64 {
		return hx.Hash([]byte{byte(x), byte(x >> 8), byte(y), byte(y >> 8)}, []byte(fmt.Sprint(c.Seed)))
	}
	px := func(x, y int) byte {
		if sym != nil {
			if sym.Get(x, y) {
				return 0
			}
			return 255
		}
		return grayOf(c, x, y, noise)
	}
	m := &model{w: w, h: h}
	switch c.Kind {
	case "gray", "rgba", "nrgba", "rgba64", "paletted", "subimage":
		bw, bh := w, h
		minX, minY := 0, 0
		if c.Kind == "subimage" {
			bw, bh = w+offX+padR, h+offY+padB
			minX, minY = offX, offY
		}
		rect := image.Rect(0, 0, bw, bh)
		var img image.Image
		exact := true // whether model values are known exactly from the gray level
		switch c.Kind {
		case "gray", "subimage":
			g := image.NewGray(rect)
			for y := 0; y < bh; y++ {
				for x := 0; x < bw; x++ {
					v := byte(noise(x+1000, y+1000))
					if x >= minX && x < minX+w && y >= minY && y < minY+h {
						v = px(x-minX, y-minY)
					}
					g.SetGray(x, y, color.Gray{Y: v})
				}
			}
			if c.Kind == "subimage" {
				img = g.SubImage(image.Rect(minX, minY, minX+w, minY+h))
			} else {
				img = g
			}
		case "rgba":
			g := image.NewRGBA(rect)
			for y := 0; y < bh; y++ {
				for x := 0; x < bw; x++ {
					v := px(x, y)
					g.SetRGBA(x, y, color.RGBA{v, v, v, 255})
				}
			}
			img = g
		case "rgba64":
			g := image.NewRGBA64(rect)
			for y := 0; y < bh; y++ {
				for x := 0; x < bw; x++ {
					v := uint16(px(x, y)) * 257
					g.SetRGBA64(x, y, color.RGBA64{v, v, v, 0xffff})
				}
			}
			img = g
		case "nrgba":
			// colour and alpha: the model takes the library's own conversion (checked only at the extremes)
			g := image.NewNRGBA(rect)
			for y := 0; y < bh; y++ {
				for x := 0; x < bw; x++ {
					n := noise(x, y)
					v := px(x, y)
					if v == 0 || v == 255 {
						g.SetNRGBA(x, y, color.NRGBA{v, v, v, 255})
					} else {
						g.SetNRGBA(x, y, color.NRGBA{byte(n >> 16), byte(n >> 24), byte(n >> 32), byte(n >> 40)})
					}
				}
			}
			img = g
			exact = false
		case "paletted":
			pal := color.Palette{color.Gray{0}, color.Gray{255}, color.Gray{90}, color.Gray{200}, color.RGBA{255, 0, 0, 255}}
			g := image.NewPaletted(rect, pal)
			for y := 0; y < bh; y++ {
				for x := 0; x < bw; x++ {
					v := px(x, y)
					switch {
					case v == 0:
						g.SetColorIndex(x, y, 0)
					case v == 255:
						g.SetColorIndex(x, y, 1)
					default:
						g.SetColorIndex(x, y, uint8(2+int(v)%3))
					}
				}
			}
			img = g
			exact = false
		}
		src := gozxing.NewLuminanceSourceFromImage(img)
		m.u = make([][]byte, h)
		if exact {
			for y := 0; y < h; y++ {
				m.u[y] = make([]byte, w)
				for x := 0; x < w; x++ {
					m.u[y][x] = px(x, y)
				}
			}
		} else {
			if src.GetWidth() != w || src.GetHeight() != h {
				return nil, nil, fmt.Errorf("source is %dx%d for a %dx%d image", src.GetWidth(), src.GetHeight(), w, h)
			}
			mat := src.GetMatrix()
			for y := 0; y < h; y++ {
				m.u[y] = append([]byte(nil), mat[y*w:(y+1)*w]...)
				for x := 0; x < w; x++ {
					if v := px(x, y); (v == 0 || v == 255) && m.u[y][x] != v {
						return nil, nil, fmt.Errorf("opaque %d pixel at (%d,%d) has luminance %d in a %s image", v, x, y, m.u[y][x], c.Kind)
					}
				}
			}
		}
		return src, m, nil
	case "rgbints":
		pixels := make([]int, w*h)
		m.u = make([][]byte, h)
		for y := 0; y < h; y++ {
			m.u[y] = make([]byte, w)
			for x := 0; x < w; x++ {
				n := noise(x, y)
				r, g, b := int(byte(n>>16)), int(byte(n>>24)), int(byte(n>>32))
				if v := px(x, y); c.Pixels != "noise" {
					r, g, b = int(v), int(v), int(v)
				}
				pixels[y*w+x] = 0xFF<<24 | r<<16 | g<<8 | b
				m.u[y][x] = byte((r + 2*g + b) / 4)
			}
		}
		return gozxing.NewRGBLuminanceSource(w, h, pixels), m, nil
	case "yuv":
		dw, dh := w+offX+padR, h+offY+padB
		data := make([]byte, dw*dh+dw*dh/2)
		m.u = make([][]byte, dh)
		for y := 0; y < dh; y++ {
			m.u[y] = make([]byte, dw)
			for x := 0; x < dw; x++ {
				v := byte(noise(x+500, y+500))
				if x >= offX && x < offX+w && y >= offY && y < offY+h {
					v = px(x-offX, y-offY)
				}
				data[y*dw+x] = v
				m.u[y][x] = v
			}
		}
		if c.Reverse {
			for y := offY; y < offY+h; y++ {
				for a, b := offX, offX+w-1; a < b; a, b = a+1, b-1 {
					m.u[y][a], m.u[y][b] = m.u[y][b], m.u[y][a]
				}
			}
		}
		src, err := gozxing.NewPlanarYUVLuminanceSource(data, dw, dh, offX, offY, w, h, c.Reverse)
		if err != nil {
			return nil, nil, fmt.Errorf("NewPlanarYUVLuminanceSource rejected an in-range view: %v", err)
		}
		m.l, m.t = offX, offY
		return src, m, nil
	}
	return nil, nil, fmt.Errorf("hx: kind %q", c.Kind)
}

func compareView(src gozxing.LuminanceSource, m *model, where string) error {
	if src.GetWidth() != m.w || src.GetHeight() != m.h {
		return fmt.Errorf("%s: view is %dx%d, model %dx%d", where, src.GetWidth(), src.GetHeight(), m.w, m.h)
	}
	mat := src.GetMatrix()
	if len(mat) < m.w*m.h {
		return fmt.Errorf("%s: GetMatrix has %d bytes for a %dx%d view", where, len(mat), m.w, m.h)
	}
	big := make([]byte, m.w+7)
	for y := 0; y < m.h; y++ {
		var row []byte
		var err error
		switch y % 3 {
		case 0:
			row, err = src.GetRow(y, nil)
		case 1:
			for i := range big {
				big[i] = 0xA5 // the caller's buffer arrives dirty
			}
			row, err = src.GetRow(y, big)
		default:
			row, err = src.GetRow(y, make([]byte, m.w/2))
		}
		if err != nil {
			return fmt.Errorf("%s: GetRow(%d) failed: %v", where, y, err)
		}
		if len(row) < m.w {
			return fmt.Errorf("%s: GetRow(%d) returned %d bytes for width %d", where, y, len(row), m.w)
		}
		for x := 0; x < m.w; x++ {
			want := m.at(x, y)
			if row[x] != want {
				return fmt.Errorf("%s: GetRow(%d)[%d]=%d, model %d", where, y, x, row[x], want)
			}
			if mat[y*m.w+x] != want {
				return fmt.Errorf("%s: GetMatrix()[%d*%d+%d]=%d, model %d", where, y, m.w, x, mat[y*m.w+x], want)
			}
		}
	}
	for _, y := range []int{-1, m.h, m.h + 5} {
		if _, err := src.GetRow(y, nil); err == nil {
			return fmt.Errorf("%s: GetRow(%d) outside the %d-row view returned no error", where, y, m.h)
		}
	}
	return nil
}

func (m *model) cropValid(l, t, w, h int) bool {
	if l < 0 || t < 0 || w < 1 || h < 1 {
		return false
	}
	return m.l+l+w <= len(m.u[0]) && m.t+t+h <= len(m.u)
}

func (m *model) rotated() *model {
	// counter-clockwise: new(x,y) = old(w-1-y, x); new size h x w
	n := &model{w: m.h, h: m.w, inv: m.inv}
	n.u = make([][]byte, n.h)
	for y := 0; y < n.h; y++ {
		n.u[y] = make([]byte, n.w)
		for x := 0; x < n.w; x++ {
			n.u[y][x] = m.u[m.t+x][m.l+m.w-1-y]
		}
	}
	return n
}

func isNotFound(err error) bool {
	var nf gozxing.NotFoundException
	return errors.As(err, &nf)
}

func check(raw json.RawMessage) error {
	var c Case
	if err := json.Unmarshal(raw, &c); err != nil {
		return fmt.Errorf("hx: %v", err)
	}
	src, m, err := build(c)
	if err != nil {
		return err
	}
	if err := compareView(src, m, "initial view"); err != nil {
		return err
	}
	rotatable := c.Kind != "rgbints" && c.Kind != "yuv"
	for i, op := range c.Ops {
		where := fmt.Sprintf("after op %d (%s %v)", i, op.Op, op.A)
		switch op.Op {
		case "crop":
			l, t, w, h := op.A[0], op.A[1], op.A[2], op.A[3]
			var ns gozxing.LuminanceSource
			var e error
			if pe := hx.Safe(func() error { ns, e = src.Crop(l, t, w, h); return nil }); pe != nil {
				return fmt.Errorf("%s: Crop(%d,%d,%d,%d) of a %dx%d view panicked: %v", where, l, t, w, h, m.w, m.h, pe)
			}
			valid := m.cropValid(l, t, w, h)
			if !valid {
				if e == nil {
					// an accepted invalid crop must at least not hand out foreign pixels: report as the property says
					return fmt.Errorf("%s: Crop(%d,%d,%d,%d) of a %dx%d view (at offset %d,%d of %dx%d data) has a negative origin or reaches outside the underlying image but returned no error", where, l, t, w, h, m.w, m.h, m.l, m.t, len(m.u[0]), len(m.u))
				}
				continue
			}
			if e != nil {
				return fmt.Errorf("%s: Crop(%d,%d,%d,%d) inside the underlying image failed: %v", where, l, t, w, h, e)
			}
			src = ns
			m = &model{u: m.u, l: m.l + l, t: m.t + t, w: w, h: h, inv: m.inv}
		case "invert":
			src = src.Invert()
			m = &model{u: m.u, l: m.l, t: m.t, w: m.w, h: m.h, inv: !m.inv}
		case "rotate":
			if src.IsRotateSupported() != rotatable {
				return fmt.Errorf("%s: IsRotateSupported()=%v for kind %s", where, src.IsRotateSupported(), c.Kind)
			}
			var ns gozxing.LuminanceSource
			var e error
			if pe := hx.Safe(func() error { ns, e = src.RotateCounterClockwise(); return nil }); pe != nil {
				return fmt.Errorf("%s: RotateCounterClockwise panicked: %v", where, pe)
			}
			if !rotatable {
				if e == nil {
					return fmt.Errorf("%s: rotation of an unsupported source returned no error", where)
				}
				continue
			}
			if e != nil {
				return fmt.Errorf("%s: RotateCounterClockwise failed: %v", where, e)
			}
			src = ns
			m = m.rotated()
		default:
			return fmt.Errorf("hx: op %q", op.Op)
		}
		if err := compareView(src, m, where); err != nil {
			return err
		}
	}
	if c.Binarizer == "" {
		return nil
	}
	return checkBinarizer(c, src, m)
}

// checkBinarizer: the final view (bilevel content) through BinaryBitmap.
func checkBinarizer(c Case, src gozxing.LuminanceSource, m *model) error {
	for y := 0; y < m.h; y++ {
		for x := 0; x < m.w; x++ {
			if v := m.at(x, y); v != 0 && v != 255 {
				return nil // not bilevel: nothing promised
			}
		}
	}
	var bin gozxing.Binarizer
	if c.Binarizer == "global" {
		bin = gozxing.NewGlobalHistgramBinarizer(src)
	} else {
		bin = gozxing.NewHybridBinarizer(src)
	}
	bb, err := gozxing.NewBinaryBitmap(bin)
	if err != nil {
		return fmt.Errorf("NewBinaryBitmap: %v", err)
	}
	if bb.GetWidth() != m.w || bb.GetHeight() != m.h {
		return fmt.Errorf("BinaryBitmap is %dx%d, view %dx%d", bb.GetWidth(), bb.GetHeight(), m.w, m.h)
	}
	desc := fmt.Sprintf("%s binarizer on a %dx%d bilevel view", c.Binarizer, m.w, m.h)
	mat, err := bb.GetBlackMatrix()
	if err != nil {
		if !isNotFound(err) {
			return fmt.Errorf("GetBlackMatrix error is not NotFound: %v [%s]", err, desc)
		}
	} else {
		if mat.GetWidth() != m.w || mat.GetHeight() != m.h {
			return fmt.Errorf("black matrix is %dx%d [%s]", mat.GetWidth(), mat.GetHeight(), desc)
		}
		for y := 0; y < m.h; y++ {
			for x := 0; x < m.w; x++ {
				if mat.Get(x, y) != (m.at(x, y) == 0) {
					return fmt.Errorf("black matrix (%d,%d)=%v, pixel luminance %d [%s]", x, y, mat.Get(x, y), m.at(x, y), desc)
				}
			}
		}
		mat2, err2 := bb.GetBlackMatrix()
		if err2 != nil || mat2 != mat {
			return fmt.Errorf("second GetBlackMatrix call did not return the cached matrix [%s]", desc)
		}
	}
	// rows: sharpened threshold model on bilevel data: black pixels, except the two end pixels of rows >= 3 wide
	for y := 0; y < m.h; y++ {
		has0, has255 := false, false
		for x := 0; x < m.w; x++ {
			if m.at(x, y) == 0 {
				has0 = true
			} else {
				has255 = true
			}
		}
		var reuse *gozxing.BitArray
		if y%2 == 1 {
			// a caller-supplied row that still holds another row's bits
			reuse = gozxing.NewBitArray(m.w + (y%3)*29)
			for i := 0; i < reuse.GetSize(); i++ {
				reuse.Set(i)
			}
		}
		row, err := bb.GetBlackRow(y, reuse)
		if !(has0 && has255) && err != nil {
			// a single-colour row has no contrast: rejecting it is allowed
			if !isNotFound(err) {
				return fmt.Errorf("GetBlackRow(%d) error is not NotFound: %v [%s]", y, err, desc)
			}
			continue
		}
		if err != nil {
			return fmt.Errorf("GetBlackRow(%d) failed on a two-colour row: %v [%s]", y, err, desc)
		}
		if row.GetSize() < m.w {
			return fmt.Errorf("GetBlackRow(%d) size %d [%s]", y, row.GetSize(), desc)
		}
		for x := 0; x < m.w; x++ {
			want := m.at(x, y) == 0
			if m.w >= 3 && (x == 0 || x == m.w-1) {
				want = false
			}
			if row.Get(x) != want {
				return fmt.Errorf("GetBlackRow(%d).Get(%d)=%v, model %v [%s]", y, x, row.Get(x), want, desc)
			}
		}
	}
	if _, err := bb.GetBlackRow(-1, nil); err == nil {
		return fmt.Errorf("GetBlackRow(-1) returned no error [%s]", desc)
	}
	if _, err := bb.GetBlackRow(m.h, nil); err == nil {
		return fmt.Errorf("GetBlackRow(height) returned no error [%s]", desc)
	}
	// BinaryBitmap crop / rotate go through the same source API
	if bb.IsCropSupported() && m.w >= 4 && m.h >= 4 {
		cb, err := bb.Crop(1, 1, m.w-2, m.h-2)
		if err != nil {
			return fmt.Errorf("BinaryBitmap.Crop(1,1,w-2,h-2) failed: %v [%s]", err, desc)
		}
		if cb.GetWidth() != m.w-2 || cb.GetHeight() != m.h-2 {
			return fmt.Errorf("BinaryBitmap.Crop size %dx%d [%s]", cb.GetWidth(), cb.GetHeight(), desc)
		}
		if cm, err := cb.GetBlackMatrix(); err == nil {
			for y := 0; y < m.h-2; y++ {
				for x := 0; x < m.w-2; x++ {
					if cm.Get(x, y) != (m.at(x+1, y+1) == 0) {
						return fmt.Errorf("cropped BinaryBitmap black matrix (%d,%d) differs from the source pixel (stale cache?) [%s]", x, y, desc)
					}
				}
			}
		} else if !isNotFound(err) {
			return fmt.Errorf("cropped GetBlackMatrix: %v [%s]", err, desc)
		}
	}
	if bb.IsRotateSupported() {
		rb, err := bb.RotateCounterClockwise()
		if err != nil {
			return fmt.Errorf("BinaryBitmap.RotateCounterClockwise failed: %v [%s]", err, desc)
		}
		rm := m.rotated()
		if rmat, err := rb.GetBlackMatrix(); err == nil {
			for y := 0; y < rm.h; y++ {
				for x := 0; x < rm.w; x++ {
					if rmat.Get(x, y) != (rm.at(x, y) == 0) {
						return fmt.Errorf("rotated BinaryBitmap black matrix (%d,%d) differs from the rotated source [%s]", x, y, desc)
					}
				}
			}
		} else if !isNotFound(err) {
			return fmt.Errorf("rotated GetBlackMatrix: %v [%s]", err, desc)
		}
	}
	return nil
}

// ----------------------------------------------------------------- generator

var kinds = []string{"gray", "rgba", "nrgba", "rgba64", "paletted", "subimage", "rgbints", "yuv"}
var symNames = []string{"QR", "DM", "EAN13", "EAN8", "UPCA", "UPCE", "ITF", "CODE39", "CODE93", "CODE128", "CODABAR"}

func genSize(t *rapid.T, label string) int {
	switch rapid.IntRange(0, 5).Draw(t, label+"k") {
	case 0:
		return rapid.SampledFrom([]int{1, 2, 3, 7, 8, 9, 39, 40, 41, 47, 48, 49, 63, 64, 65}).Draw(t, label+"s")
	case 1:
		return rapid.IntRange(1, 200).Draw(t, label+"big")
	default:
		return rapid.IntRange(1, 48).Draw(t, label)
	}
}

func gen(t *rapid.T, binar bool) (Case, string, bool) {
	c := Case{Kind: rapid.SampledFrom(kinds).Draw(t, "kind"), Seed: rapid.Uint64().Draw(t, "seed")}
	c.W, c.H = genSize(t, "w"), genSize(t, "h")
	c.Pixels = rapid.SampledFrom([]string{"noise", "bilevel", "gradient"}).Draw(t, "pixels")
	if binar {
		c.Pixels = "bilevel"
		c.Binarizer = rapid.SampledFrom([]string{"global", "hybrid"}).Draw(t, "binarizer")
		switch rapid.IntRange(0, 7).Draw(t, "sym") {
		case 0, 1:
			c.Pixels = "symbol:" + rapid.SampledFrom(symNames).Draw(t, "symname")
		case 2:
			c.Pixels = fmt.Sprintf("blocks:%d", rapid.SampledFrom([]int{2, 8, 16, 40, 64}).Draw(t, "blk"))
		case 3:
			c.Pixels = rapid.SampledFrom([]string{"black", "white", "blackframe:40", "blackframe:48", "blackframe:9"}).Draw(t, "solid")
			if rapid.Bool().Draw(t, "large") {
				c.W, c.H = rapid.IntRange(40, 200).Draw(t, "lw"), rapid.IntRange(40, 200).Draw(t, "lh")
			}
		}
		if rapid.Bool().Draw(t, "around40") {
			c.W, c.H = rapid.IntRange(36, 47).Draw(t, "w40"), rapid.IntRange(36, 47).Draw(t, "h40")
		}
	}
	if c.Kind == "yuv" || c.Kind == "subimage" {
		c.Off = []int{rapid.IntRange(0, 9).Draw(t, "offx"), rapid.IntRange(0, 9).Draw(t, "offy"), rapid.IntRange(0, 9).Draw(t, "padr"), rapid.IntRange(0, 9).Draw(t, "padb")}
		if c.Kind == "yuv" {
			c.Reverse = rapid.Bool().Draw(t, "reverse")
		}
	}
	// the generator tracks the view shape to draw in- and out-of-range rectangles
	w, h := c.W, c.H
	if len(c.Pixels) > 7 && c.Pixels[:7] == "symbol:" {
		if bm := symbolImage(c.Pixels[7:], c.Seed); bm != nil {
			w, h = bm.GetWidth(), bm.GetHeight()
		}
	}
	rotatable := c.Kind != "rgbints" && c.Kind != "yuv"
	nops := rapid.IntRange(0, 6).Draw(t, "nops")
	cropsAtOffset, composed := 0, 0
	cls := map[string]bool{}
	for i := 0; i < nops; i++ {
		k := rapid.SampledFrom([]string{"crop", "crop", "invert", "rotate"}).Draw(t, "op")
		op := Op{Op: k}
		switch k {
		case "crop":
			switch rapid.IntRange(0, 7).Draw(t, "cropkind") {
			case 0: // negative origin
				nl, nt := rapid.IntRange(-3, -1).Draw(t, "nl"), rapid.IntRange(-3, -1).Draw(t, "nt")
				switch rapid.IntRange(0, 2).Draw(t, "which") {
				case 0: // only the left edge is outside
					nt = rapid.IntRange(0, h-1).Draw(t, "t0")
				case 1: // only the top edge is outside
					nl = rapid.IntRange(0, w-1).Draw(t, "l0")
				}
				op.A = []int{nl, nt, rapid.IntRange(1, w).Draw(t, "cw"), rapid.IntRange(1, h).Draw(t, "ch")}
				cls["crop_negative_origin"] = true
			case 1: // overhanging
				l, tp := rapid.IntRange(0, w-1).Draw(t, "l"), rapid.IntRange(0, h-1).Draw(t, "t")
				op.A = []int{l, tp, w - l + rapid.IntRange(0, 12).Draw(t, "ow"), h - tp + rapid.IntRange(0, 12).Draw(t, "oh")}
				cls["crop_overhanging"] = true
			default:
				l, tp := rapid.IntRange(0, w-1).Draw(t, "l"), rapid.IntRange(0, h-1).Draw(t, "t")
				op.A = []int{l, tp, rapid.IntRange(1, w-l).Draw(t, "cw"), rapid.IntRange(1, h-tp).Draw(t, "ch")}
				if l > 0 || tp > 0 {
					cropsAtOffset++
				}
				w, h = op.A[2], op.A[3]
				composed++
				cls["crop_in_range"] = true
			}
		case "invert":
			composed++
			cls["invert"] = true
		case "rotate":
			if rotatable {
				w, h = h, w
				composed++
				cls["rotate"] = true
			} else {
				cls["rotate_unsupported"] = true
			}
		}
		c.Ops = append(c.Ops, op)
	}
	cl := "kind=" + c.Kind
	for k := range cls {
		cl += ";" + k
	}
	if c.W < 40 || c.H < 40 {
		cl += ";size<40"
	} else {
		cl += ";size>=40"
	}
	nt := composed >= 2 && cropsAtOffset >= 1
	if binar {
		cl += ";binarizer=" + c.Binarizer
		nt = true
	}
	return c, cl, nt
}

// YUVRect: the planar-YUV constructor takes its crop rectangle as arguments: a rectangle with a
// negative origin or reaching outside the data is an error, any other (non-empty) one gives the view.
type YUVRect struct {
	DW, DH, L, T, W, H int
	Reverse            bool
}

func checkYUVRect(raw json.RawMessage) error {
	var c YUVRect
	if err := json.Unmarshal(raw, &c); err != nil {
		return fmt.Errorf("hx: %v", err)
	}
	if c.DW < 1 || c.DH < 1 || c.W < 1 || c.H < 1 {
		return fmt.Errorf("hx: empty")
	}
	data := make([]byte, c.DW*c.DH+c.DW*c.DH/2+4)
	for i := range data {
		data[i] = byte(i*37 + 11)
	}
	valid := c.L >= 0 && c.T >= 0 && c.L+c.W <= c.DW && c.T+c.H <= c.DH
	orig := append([]byte(nil), data...) // the constructor mirrors the rows of the caller's array in place
	src, err := gozxing.NewPlanarYUVLuminanceSource(data, c.DW, c.DH, c.L, c.T, c.W, c.H, c.Reverse)
	desc := fmt.Sprintf("NewPlanarYUVLuminanceSource(data %dx%d, left %d, top %d, %dx%d, reverse %v)", c.DW, c.DH, c.L, c.T, c.W, c.H, c.Reverse)
	if !valid {
		if err == nil {
			return fmt.Errorf("%s: rectangle outside the data accepted", desc)
		}
		return nil
	}
	if err != nil {
		return fmt.Errorf("%s: in-range rectangle rejected: %v", desc, err)
	}
	if src.GetWidth() != c.W || src.GetHeight() != c.H {
		return fmt.Errorf("%s: view is %dx%d", desc, src.GetWidth(), src.GetHeight())
	}
	mat := src.GetMatrix()
	for y := 0; y < c.H; y++ {
		row, err := src.GetRow(y, nil)
		if err != nil || len(row) < c.W {
			return fmt.Errorf("%s: GetRow(%d): %v", desc, y, err)
		}
		for x := 0; x < c.W; x++ {
			sx := c.L + x
			if c.Reverse {
				sx = c.L + c.W - 1 - x
			}
			want := orig[(c.T+y)*c.DW+sx]
			if row[x] != want || mat[y*c.W+x] != want {
				return fmt.Errorf("%s: pixel (%d,%d) row=%d matrix=%d, data has %d", desc, x, y, row[x], mat[y*c.W+x], want)
			}
		}
	}
	return nil
}

func TestCheck(t *testing.T) {
	hx.Main(t, "C17", func(c *hx.Ctx) {
		c.Register("views", check)
		c.Register("yuvrect", checkYUVRect)
	}, func(c *hx.Ctx) {
		run := func(sub string, n int, binar bool) {
			c.Rapid(sub, n, func(t *rapid.T) {
				cs, cl, nt := gen(t, binar)
				raw, _ := json.Marshal(cs)
				c.Note(sub, cl, nt, hx.Hash(raw), func() any { return cs })
				if err := c.Eval("views", cs); err != nil {
					t.Fatalf("%v", err)
				}
			})
		}
		// every crop rectangle around small planar-YUV data, in range or not
		{
			idx := 0
			for _, d := range [][2]int{{1, 1}, {3, 2}, {4, 5}, {6, 6}} {
				dw, dh := d[0], d[1]
				for l := -2; l <= dw+1; l++ {
					for tp := -2; tp <= dh+1; tp++ {
						for w := 1; w <= dw+2; w++ {
							for h := 1; h <= dh+2; h++ {
								idx++
								if !c.Mine(idx) {
									continue
								}
								cs := YUVRect{DW: dw, DH: dh, L: l, T: tp, W: w, H: h, Reverse: idx%3 == 0}
								cl := "in_range"
								if l < 0 || tp < 0 {
									cl = "negative_origin"
								} else if l+w > dw || tp+h > dh {
									cl = "reaches_outside"
								}
								c.Note("yuv_constructor_rectangles", cl, cl != "in_range", hx.HashS("yuv", fmt.Sprint(cs)), func() any { return cs })
								if !c.Enum("yuv_constructor_rectangles", "yuvrect", cs, nil) {
									break
								}
							}
						}
					}
				}
			}
			c.SetExhaustive("yuv_constructor_rectangles", true)
		}
		run("view_ops_vs_model", c.N(2500, 80000), false)
		run("bilevel_binarisation", c.N(1200, 40000), true)
	})
}
