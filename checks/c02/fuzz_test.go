package c02

import (
	"encoding/json"
	"testing"
)

// FuzzDMHighLevel: bytes -> Latin-1 text (+ shape / forced size selector) -> the round-trip oracle.
func FuzzDMHighLevel(f *testing.F) {
	f.Add([]byte("qszglpuxge1A1A\xd0"), uint8(0), uint8(255))
	f.Add([]byte("AB>CD>EF>GH>I\xe9"), uint8(1), uint8(3))
	f.Add([]byte("A.B-C/D:E;F,G`"), uint8(2), uint8(255))
	f.Add([]byte("\xe9\xe8\xea\xeb\xec\xed1"), uint8(0), uint8(20))
	f.Add([]byte("123456789012"), uint8(0), uint8(255))
	f.Fuzz(func(t *testing.T, b []byte, shape, size uint8) {
		if len(b) == 0 || len(b) > 400 {
			return
		}
		rs := make([]rune, len(b))
		for i, v := range b {
			rs[i] = rune(v)
		}
		c := Case{Text: string(rs), Shape: int(shape) % 3, Path: "codewords"}
		if int(size) < 30 {
			a := sizesTable()[int(size)]
			c.Min, c.Max = []int{a[0], a[1]}, []int{a[0], a[1]}
		}
		raw, _ := json.Marshal(c)
		if err := check(raw); err != nil {
			t.Fatalf("%v", err)
		}
	})
}
