// C02: Data Matrix: what is written is what is read (all contents, all 30 sizes).
package c02

import (
	"encoding/json"
	"fmt"
	"strings"
	"testing"
	"unicode/utf8"

	"github.com/makiuchi-d/gozxing"
	"github.com/makiuchi-d/gozxing/datamatrix"
	dmdec "github.com/makiuchi-d/gozxing/datamatrix/decoder"
	dmenc "github.com/makiuchi-d/gozxing/datamatrix/encoder"
	"pgregory.net/rapid"

	"verif/internal/dmref"
	"verif/internal/dmx"
	"verif/internal/hx"
)

type Case struct {
	Text  string `json:"text"`          // Latin-1 characters (as a Go string), or beyond for the refusal side
	Shape int    `json:"shape"`         // 0 none, 1 square, 2 rectangle
	Min   []int  `json:"min,omitempty"` // (width, height)
	Max   []int  `json:"max,omitempty"`
	Path  string `json:"path"` // "codewords" | "image"
	ReqW  int    `json:"req_w,omitempty"`
	ReqH  int    `json:"req_h,omitempty"`
}

var shapes = []dmenc.SymbolShapeHint{dmenc.SymbolShapeHint_FORCE_NONE, dmenc.SymbolShapeHint_FORCE_SQUARE, dmenc.SymbolShapeHint_FORCE_RECTANGLE}

// sizesTable lists (cols, rows) of the 30 symbol sizes.
func sizesTable() [][2]int {
	out := make([][2]int, 0, len(dmref.Sizes))
	for _, a := range dmref.Sizes {
		out = append(out, [2]int{a.Cols, a.Rows})
	}
	return out
}

func dimOf(v []int) *gozxing.Dimension {
	if len(v) != 2 {
		return nil
	}
	d, _ := gozxing.NewDimension(v[0], v[1])
	return d
}

// largestAdmitted returns the capacity of the largest symbol the hints admit (0 if none).
func largestAdmitted(c Case) int {
	best := 0
	for _, a := range dmref.Sizes {
		if c.Shape == 1 && a.Rect() || c.Shape == 2 && !a.Rect() {
			continue
		}
		if len(c.Min) == 2 && (a.Cols < c.Min[0] || a.Rows < c.Min[1]) {
			continue
		}
		if len(c.Max) == 2 && (a.Cols > c.Max[0] || a.Rows > c.Max[1]) {
			continue
		}
		if a.Data > best {
			best = a.Data
		}
	}
	return best
}

// asciiLen is the codeword count of plain ASCII encodation (digit pairs, upper shift).
func asciiLen(latin []byte) int {
	n := 0
	for i := 0; i < len(latin); {
		c := latin[i]
		switch {
		case c >= '0' && c <= '9' && i+1 < len(latin) && latin[i+1] >= '0' && latin[i+1] <= '9':
			n++
			i += 2
		case c >= 128:
			n += 2
			i++
		default:
			n++
			i++
		}
	}
	return n
}

func latin1(s string) ([]byte, bool) {
	out := make([]byte, 0, len(s))
	for _, r := range s {
		if r > 0xFF || r == utf8.RuneError {
			return nil, false
		}
		out = append(out, byte(r))
	}
	return out, true
}

func show(s string) string {
	if len(s) > 120 {
		return fmt.Sprintf("%q...(%d bytes)", s[:120], len(s))
	}
	return fmt.Sprintf("%q", s)
}

const fitSlack = 16

func check(raw json.RawMessage) error {
	var c Case
	if err := json.Unmarshal(raw, &c); err != nil {
		return fmt.Errorf("hx: %v", err)
	}
	if c.Text == "" || !utf8.ValidString(c.Text) {
		return fmt.Errorf("hx: empty or invalid text")
	}
	lat, isLatin := latin1(c.Text)
	min, max := dimOf(c.Min), dimOf(c.Max)
	capacity := largestAdmitted(c)
	mustFit := isLatin && capacity > 0 && asciiLen(lat)+fitSlack <= capacity
	// a text made of extended characters only has one sensible encodation, a single Base-256 run
	// (latch + one or two length bytes + the bytes): if that fits, the text fits
	if isLatin && capacity > 0 && !mustFit && len(lat) > 0 {
		allExt := true
		for _, b := range lat {
			if b < 128 {
				allExt = false
				break
			}
		}
		lenBytes := 1
		if len(lat) > 249 {
			lenBytes = 2
		}
		if allExt && 1+lenBytes+len(lat) <= capacity {
			mustFit = true
		}
	}
	desc := fmt.Sprintf("text=%s (%d chars) shape=%d min=%v max=%v", show(c.Text), len(lat), c.Shape, c.Min, c.Max)

	if c.Path == "codewords" {
		var cw []byte
		var err error
		if e := hx.Watch("EncodeHighLevel "+desc, func() error {
			cw, err = dmenc.EncodeHighLevel(c.Text, shapes[c.Shape], min, max)
			return nil
		}); e != nil {
			return e
		}
		if err != nil {
			if !isLatin {
				return nil
			}
			if mustFit {
				return fmt.Errorf("EncodeHighLevel refused text that fits (ASCII encodation needs %d codewords, largest admitted symbol holds %d): %v [%s]", asciiLen(lat), capacity, err, desc)
			}
			return nil
		}
		if !isLatin {
			return fmt.Errorf("EncodeHighLevel accepted text outside ISO-8859-1 [%s]", desc)
		}
		// the codeword count must be that of an admitted symbol
		si, e2 := dmenc.SymbolInfo_Lookup(len(cw), shapes[c.Shape], min, max, false)
		if e2 != nil || si == nil || si.GetDataCapacity() != len(cw) {
			return fmt.Errorf("EncodeHighLevel returned %d codewords, which is not the capacity of an admitted symbol [%s]", len(cw), desc)
		}
		res, err := dmdec.DecodedBitStreamParser_decode(cw)
		if err != nil {
			return fmt.Errorf("decoding the produced codewords failed: %v [codewords %v] [%s]", err, head(cw), desc)
		}
		if res.GetText() != c.Text {
			return fmt.Errorf("decoded text %s differs from the encoded text [codewords %v] [%s]", show(res.GetText()), head(cw), desc)
		}
		return nil
	}

	hints := map[gozxing.EncodeHintType]interface{}{}
	if c.Shape > 0 {
		hints[gozxing.EncodeHintType_DATA_MATRIX_SHAPE] = shapes[c.Shape]
	}
	if min != nil {
		hints[gozxing.EncodeHintType_MIN_SIZE] = min
	}
	if max != nil {
		hints[gozxing.EncodeHintType_MAX_SIZE] = max
	}
	var bm *gozxing.BitMatrix
	var err error
	if e := hx.Watch("DataMatrixWriter.Encode "+desc, func() error {
		bm, err = datamatrix.NewDataMatrixWriter().Encode(c.Text, gozxing.BarcodeFormat_DATA_MATRIX, c.ReqW, c.ReqH, hints)
		return nil
	}); e != nil {
		return e
	}
	if err != nil {
		if mustFit {
			return fmt.Errorf("DataMatrixWriter.Encode refused text that fits (ASCII encodation needs %d codewords, largest admitted symbol holds %d): %v [%s]", asciiLen(lat), capacity, err, desc)
		}
		return nil
	}
	if bm == nil {
		return fmt.Errorf("Encode returned neither matrix nor error [%s]", desc)
	}
	if !isLatin {
		return fmt.Errorf("Encode accepted text outside ISO-8859-1 [%s]", desc)
	}
	bmp, err := gozxing.NewBinaryBitmapFromImage(bm)
	if err != nil {
		return fmt.Errorf("hx: bitmap: %v", err)
	}
	res, err := datamatrix.NewDataMatrixReader().Decode(bmp, map[gozxing.DecodeHintType]interface{}{gozxing.DecodeHintType_PURE_BARCODE: true})
	if err != nil {
		return fmt.Errorf("pure-barcode read of the produced %dx%d image (requested %dx%d) failed: %v [%s]", bm.GetWidth(), bm.GetHeight(), c.ReqW, c.ReqH, err, desc)
	}
	if res.GetBarcodeFormat() != gozxing.BarcodeFormat_DATA_MATRIX {
		return fmt.Errorf("format %v [%s]", res.GetBarcodeFormat(), desc)
	}
	if res.GetText() != c.Text {
		return fmt.Errorf("image path: decoded text %s differs from the encoded text [%s]", show(res.GetText()), desc)
	}
	return nil
}

func head(cw []byte) []byte {
	if len(cw) > 60 {
		return cw[:60]
	}
	return cw
}

// --------------------------------------------------------------- generator

var runClasses = []struct {
	name  string
	chars string
}{
	{"digits", "0123456789"},
	{"upper", "ABCDEFGHIJKLMNOPQRSTUVWXYZ"},
	{"lower", "abcdefghijklmnopqrstuvwxyz"},
	{"space", " "},
	{"x12sep", "\r*>"},
	{"shift2", "!\"#$%&'()+,-./:;<=?@[\\]^_"},
	{"shift3", "`{|}~\x7f"},
	{"control", "\x00\x01\x04\x09\x0a\x1b\x1c\x1d\x1e\x1f"},
	{"extended", ""}, // 0x80..0xFF
	{"edifact", " !\"#$%&'()*+,-./0123456789:;<=>?@ABCDEFGHIJKLMNOPQRSTUVWXYZ[\\]^"},
}

func genText(t *rapid.T, budget int) (string, []string) {
	var sb strings.Builder
	used := map[string]bool{}
	nruns := rapid.IntRange(1, 8).Draw(t, "nruns")
	// restrict to a few classes per text so that latches to every mode actually occur
	var cls []int
	k := rapid.IntRange(1, 4).Draw(t, "nclasses")
	for i := 0; i < k; i++ {
		cls = append(cls, rapid.IntRange(0, len(runClasses)-1).Draw(t, "class"))
	}
	// "fine" texts alternate very short runs, so that shifted (two-value) characters misalign the
	// C40/Text/X12 triplets and EDIFACT quadruplets in every possible way
	fine := rapid.IntRange(0, 3).Draw(t, "fine") == 0
	if fine {
		nruns = rapid.IntRange(2, 14).Draw(t, "nfine")
	}
	total := 0
	for r := 0; r < nruns && total < budget; r++ {
		ci := cls[rapid.IntRange(0, len(cls)-1).Draw(t, "pick")]
		rc := runClasses[ci]
		var l int
		rk := rapid.IntRange(0, 5).Draw(t, "runkind")
		if fine {
			rk = 0
		}
		switch rk {
		case 0:
			l = rapid.IntRange(1, 3).Draw(t, "l")
		case 1, 2, 3:
			l = rapid.IntRange(1, 12).Draw(t, "l")
		case 4:
			l = rapid.IntRange(13, 60).Draw(t, "l")
		default:
			l = rapid.IntRange(1, 1+budget/nruns).Draw(t, "l")
		}
		if total+l > budget {
			l = budget - total
		}
		used[rc.name] = true
		seed := rapid.Uint64().Draw(t, "runseed")
		rng := hx.NewRng(seed)
		for i := 0; i < l; i++ {
			if rc.name == "extended" {
				sb.WriteRune(rune(0x80 + rng.Intn(0x80)))
			} else {
				sb.WriteByte(rc.chars[rng.Intn(len(rc.chars))])
			}
		}
		total += l
	}
	// a tail that differs from the body: end-of-data handling with an odd last character
	if rapid.IntRange(0, 2).Draw(t, "tail") == 0 {
		tc := runClasses[rapid.SampledFrom([]int{4, 5, 6, 7, 8, 8, 8, 2, 1}).Draw(t, "tailclass")]
		rng := hx.NewRng(rapid.Uint64().Draw(t, "tailseed"))
		for i, n := 0, rapid.IntRange(1, 2).Draw(t, "taillen"); i < n; i++ {
			if tc.name == "extended" {
				sb.WriteRune(rune(0x80 + rng.Intn(0x80)))
			} else {
				sb.WriteByte(tc.chars[rng.Intn(len(tc.chars))])
			}
		}
		used[tc.name] = true
		used["odd_tail"] = true
	}
	var names []string
	if used["odd_tail"] {
		names = append(names, "odd_tail")
	}
	for _, rc := range runClasses {
		if used[rc.name] {
			names = append(names, "has_"+rc.name)
		}
	}
	return sb.String(), names
}

func genCase(t *rapid.T, path string) (Case, string) {
	c := Case{Path: path}
	var budget int
	switch rapid.IntRange(0, 9).Draw(t, "sizekind") {
	case 0, 1, 2, 3:
		budget = rapid.IntRange(1, 20).Draw(t, "budget")
	case 4, 5, 6:
		budget = rapid.IntRange(1, 120).Draw(t, "budget")
	case 7, 8:
		budget = rapid.IntRange(1, 700).Draw(t, "budget")
	default:
		budget = rapid.IntRange(1, 3200).Draw(t, "budget")
	}
	text, names := genText(t, budget)
	if text == "" {
		text = "A"
	}
	cl := strings.Join(names, ";")
	switch rapid.IntRange(0, 24).Draw(t, "macro") {
	case 0:
		text = "[)>\x1e05\x1d" + text + "\x1e\x04"
		cl += ";macro05"
	case 1:
		text = "[)>\x1e06\x1d" + text + "\x1e\x04"
		cl += ";macro06"
	case 2:
		text = rapid.SampledFrom([]string{"[)>\x1e05\x1d", "[)>\x1e06\x1d"}).Draw(t, "hdr") + text
		cl += ";macro_header_without_trailer"
	case 3:
		text += "\x1e\x04"
		cl += ";macro_trailer_without_header"
	}
	c.Text = text
	c.Shape = rapid.SampledFrom([]int{0, 0, 0, 1, 2}).Draw(t, "shape")
	switch rapid.IntRange(0, 9).Draw(t, "hintkind") {
	case 0: // forced size
		a := dmref.Sizes[rapid.IntRange(0, 29).Draw(t, "forced")]
		c.Min, c.Max = []int{a.Cols, a.Rows}, []int{a.Cols, a.Rows}
		cl += ";forced_size"
	case 1:
		a := dmref.Sizes[rapid.IntRange(0, 29).Draw(t, "min")]
		c.Min = []int{a.Cols, a.Rows}
		cl += ";min_hint"
	case 2:
		a := dmref.Sizes[rapid.IntRange(0, 29).Draw(t, "max")]
		c.Max = []int{a.Cols, a.Rows}
		cl += ";max_hint"
	case 3:
		c.Min = []int{rapid.IntRange(0, 150).Draw(t, "minw"), rapid.IntRange(0, 150).Draw(t, "minh")}
		c.Max = []int{rapid.IntRange(0, 150).Draw(t, "maxw"), rapid.IntRange(0, 150).Draw(t, "maxh")}
		cl += ";arbitrary_dims"
	}
	if path == "image" {
		switch rapid.IntRange(0, 2).Draw(t, "req") {
		case 1:
			c.ReqW, c.ReqH = rapid.IntRange(0, 400).Draw(t, "w"), rapid.IntRange(0, 400).Draw(t, "h")
		case 2:
			s := rapid.IntRange(1, 4).Draw(t, "scale")
			c.ReqW, c.ReqH = s*rapid.IntRange(8, 150).Draw(t, "bw"), s*rapid.IntRange(8, 150).Draw(t, "bh")
		}
	}
	return c, cl
}

// classify looks at the produced codewords to say whether the case is non-trivial.
func classify(c Case) (string, bool) {
	lat, ok := latin1(c.Text)
	if !ok {
		return "refusal_side", false
	}
	cw, err := dmenc.EncodeHighLevel(c.Text, shapes[c.Shape], dimOf(c.Min), dimOf(c.Max))
	if err != nil {
		return "refused", false
	}
	var parts []string
	nt := false
	for _, v := range cw {
		switch v {
		case 230, 231, 238, 239, 240:
			parts = append(parts, fmt.Sprintf("latch%d", v))
			nt = true
		}
	}
	for _, b := range lat {
		if b >= 128 {
			parts = append(parts, "extended")
			nt = true
			break
		}
	}
	if len(cw) > 0 && cw[len(cw)-1] != 129 {
		// no pad at the end: exact fill (or randomised pad, told apart below)
		if len(cw) < 2 || int(cw[len(cw)-1]) != dmref.Randomize253(len(cw)) {
			parts = append(parts, "exact_fill")
			nt = true
		}
	}
	for i, a := range dmref.Sizes {
		if a.Data == len(cw) {
			if a.Blocks > 1 {
				parts = append(parts, "multi_block")
				nt = true
			}
			parts = append(parts, fmt.Sprintf("sizeidx=%d", i))
			break
		}
	}
	if strings.HasPrefix(c.Text, "[)>\x1e0") {
		nt = true
	}
	seen := map[string]bool{}
	var out []string
	for _, p := range parts {
		if !seen[p] {
			seen[p] = true
			out = append(out, p)
		}
	}
	return strings.Join(out, ";"), nt
}

func sample(c Case) any {
	s := c
	if len(s.Text) > 100 {
		s.Text = s.Text[:100] + fmt.Sprintf("...(%d bytes)", len(c.Text))
	}
	return s
}

// History: several symbols through ONE DataMatrixWriter and ONE DataMatrixReader, with failing
// reads in between; each step must give exactly what fresh instances give.
type HStep struct {
	Case  Case   `json:"case"`
	Noise string `json:"noise,omitempty"` // "", blank, damaged
}
type History struct {
	Steps []HStep `json:"steps"`
}

func checkHistory(raw json.RawMessage) error {
	var h History
	if err := json.Unmarshal(raw, &h); err != nil {
		return fmt.Errorf("hx: %v", err)
	}
	w, r := datamatrix.NewDataMatrixWriter(), datamatrix.NewDataMatrixReader()
	pure := map[gozxing.DecodeHintType]interface{}{gozxing.DecodeHintType_PURE_BARCODE: true}
	for i, st := range h.Steps {
		c := st.Case
		if _, ok := latin1(c.Text); !ok || c.Text == "" {
			return fmt.Errorf("hx: step text outside the domain")
		}
		mk := func() map[gozxing.EncodeHintType]interface{} {
			hints := map[gozxing.EncodeHintType]interface{}{}
			if c.Shape > 0 {
				hints[gozxing.EncodeHintType_DATA_MATRIX_SHAPE] = shapes[c.Shape]
			}
			if m := dimOf(c.Min); m != nil {
				hints[gozxing.EncodeHintType_MIN_SIZE] = m
			}
			if m := dimOf(c.Max); m != nil {
				hints[gozxing.EncodeHintType_MAX_SIZE] = m
			}
			return hints
		}
		desc := fmt.Sprintf("step %d of %d on one writer/reader: text=%s shape=%d min=%v max=%v after noise %q", i+1, len(h.Steps), show(c.Text), c.Shape, c.Min, c.Max, st.Noise)
		var bm, fresh *gozxing.BitMatrix
		var err, ferr error
		if e := hx.Watch("DataMatrixWriter.Encode "+desc, func() error {
			bm, err = w.Encode(c.Text, gozxing.BarcodeFormat_DATA_MATRIX, c.ReqW, c.ReqH, mk())
			fresh, ferr = datamatrix.NewDataMatrixWriter().Encode(c.Text, gozxing.BarcodeFormat_DATA_MATRIX, c.ReqW, c.ReqH, mk())
			return nil
		}); e != nil {
			return e
		}
		if (err == nil) != (ferr == nil) {
			return fmt.Errorf("reused writer: %v, fresh writer: %v [%s]", err, ferr, desc)
		}
		if err != nil {
			continue
		}
		if bm.GetWidth() != fresh.GetWidth() || bm.GetHeight() != fresh.GetHeight() || bm.String() != fresh.String() {
			return fmt.Errorf("reused writer produced a different %dx%d symbol than a fresh writer (%dx%d) [%s]", bm.GetWidth(), bm.GetHeight(), fresh.GetWidth(), fresh.GetHeight(), desc)
		}
		if st.Noise != "" {
			nz, _ := gozxing.NewBitMatrix(bm.GetWidth(), bm.GetHeight())
			if st.Noise == "damaged" {
				for y := 0; y < bm.GetHeight(); y++ {
					for x := 0; x < bm.GetWidth(); x++ {
						if bm.Get(x, y) && (y < bm.GetHeight()/2 || x == 0 || y == bm.GetHeight()-1) {
							nz.Set(x, y)
						}
					}
				}
			}
			nb, _ := gozxing.NewBinaryBitmapFromImage(nz)
			r.Decode(nb, pure) // outcome irrelevant
			r.Decode(nb, nil)
		}
		bmp, _ := gozxing.NewBinaryBitmapFromImage(bm)
		res, err := r.Decode(bmp, pure)
		if err != nil {
			return fmt.Errorf("reused reader failed on the produced %dx%d image: %v [%s]", bm.GetWidth(), bm.GetHeight(), err, desc)
		}
		if res.GetText() != c.Text || res.GetBarcodeFormat() != gozxing.BarcodeFormat_DATA_MATRIX {
			return fmt.Errorf("reused reader read %s [%s]", show(res.GetText()), desc)
		}
	}
	return nil
}

func TestCheck(t *testing.T) {
	hx.Main(t, "C02", func(c *hx.Ctx) {
		c.Register("dm_roundtrip", check)
		c.Register("dm_history", checkHistory)
	}, func(c *hx.Ctx) {
		prop := func(sub, path string) func(t *rapid.T) {
			return func(t *rapid.T) {
				cs, cl := genCase(t, path)
				cl2, nt := "", false
				if jr, err := json.Marshal(cs); err == nil {
					hx.JournalCase("dm_roundtrip", jr) // classify already runs the encoder
				}
				if !hx.Aborted() {
					var e error
					if e = hx.Watch("classify", func() error { cl2, nt = classify(cs); return nil }); e != nil {
						// the hang is reported through the real check below
						cl2, nt = "", false
					}
				}
				raw, _ := json.Marshal(cs)
				c.Note(sub, cl+";"+cl2, nt, hx.Hash(raw), func() any { return sample(cs) })
				if err := c.Eval("dm_roundtrip", cs); err != nil {
					t.Fatalf("%v", err)
				}
			}
		}
		c.Rapid("codeword_level", c.N(25000, 400000), prop("codeword_level", "codewords"))
		c.Rapid("image_pipeline", c.N(500, 4000), prop("image_pipeline", "image"))
		c.Rapid("instance_histories", c.N(150, 3000), func(t *rapid.T) {
			var h History
			n := rapid.IntRange(2, 4).Draw(t, "steps")
			noisy := 0
			shapesSeen := map[int]bool{}
			for len(h.Steps) < n {
				cs, _ := genCase(t, "image")
				if _, ok := latin1(cs.Text); !ok || cs.Text == "" {
					continue
				}
				st := HStep{Case: cs, Noise: rapid.SampledFrom([]string{"", "", "blank", "damaged"}).Draw(t, "noise")}
				if st.Noise != "" {
					noisy++
				}
				shapesSeen[cs.Shape] = true
				h.Steps = append(h.Steps, st)
			}
			cl := fmt.Sprintf("steps=%d", n)
			if noisy > 0 {
				cl += ";failed_reads_between"
			}
			if len(shapesSeen) > 1 {
				cl += ";shape_hint_changes"
			}
			raw, _ := json.Marshal(h)
			c.Note("instance_histories", cl, noisy > 0 || len(shapesSeen) > 1, hx.Hash(raw), func() any {
				hs := History{}
				for _, st := range h.Steps {
					st.Case = sample(st.Case).(Case)
					hs.Steps = append(hs.Steps, st)
				}
				return hs
			})
			if err := c.Eval("dm_history", h); err != nil {
				t.Fatalf("%v", err)
			}
		})

		// every one of the 30 sizes through the full pipeline, forced by hints
		for si, a := range dmref.Sizes {
			if !c.Mine(si) {
				continue
			}
			rng := hx.NewRng(c.Seed("sizes", si))
			for k := 0; k < c.N(2, 12); k++ {
				var sb strings.Builder
				n := 1 + rng.Intn(a.Data)
				if k == 0 {
					n = a.Data - 1
				}
				alpha := []string{"ABCDEFGHIJKLMNOPQRSTUVWXYZ ", "0123456789", "abcdefghij klm", "A1b2C3-", "AB\xe9\xfc1"}[k%5]
				for i := 0; i < n; i++ {
					sb.WriteRune(rune(alpha[rng.Intn(len(alpha))]))
				}
				cs := Case{Text: sb.String(), Min: []int{a.Cols, a.Rows}, Max: []int{a.Cols, a.Rows}, Path: "image", ReqW: (k % 3) * a.Cols * 2, ReqH: (k % 3) * a.Rows * 2}
				cl2, nt := classify(cs)
				raw, _ := json.Marshal(cs)
				c.Note("all_sizes_pipeline", "size="+dmx.SizeName(a)+";"+cl2, nt || true, hx.Hash(raw), func() any { return sample(cs) })
				if !c.Enum("all_sizes_pipeline", "dm_roundtrip", cs, nil) {
					break
				}
			}
		}
		c.SetExhaustive("all_sizes_pipeline", false)

		// every tail (<= 5 characters, 6 in thorough, over one representative per character class) after
		// prefixes that put the encoder into each mode at each triplet / quadruplet alignment
		{
			alpha := []rune{'1', 'A', 'a', ' ', '\r', '>', '`', 0xD0, 0xE9}
			prefixes := []string{"qszglpuxge", "qszglpuxgex", "qszglpuxgexy", "QSZGLPUXGE", "QSZGLPUXGEX", "QSZGLPUXGEXY",
				"AB>CD>EF>GH>", "AB>CD>EF>GH>I", "AB>CD>EF>GH>IJ", "A.B-C/D:E;F,", "A.B-C/D:E;F,G", "A.B-C/D:E;F,GH", "A.B-C/D:E;F,GHI",
				"\u00e9\u00e8\u00ea\u00eb\u00ec\u00ed", "\u00e9\u00e8\u00ea\u00eb\u00ec\u00edx", "12345678", "123456789", "[)>\x1e05\x1dqszglpuxge"}
			maxL := c.N(5, 6)
			var n, nt int64
			idx := 0
			stop := false
			for _, pfx := range prefixes {
				for L := 0; L <= maxL && !stop; L++ {
					ix := make([]int, L)
					for !stop {
						idx++
						if c.Mine(idx) {
							rs := make([]rune, L)
							for i, k := range ix {
								rs[i] = alpha[k]
							}
							text := pfx + string(rs)
							if pfx[0] == '[' {
								text += "\x1e\x04"
							}
							cs := Case{Text: text, Path: "codewords"}
							raw, _ := json.Marshal(cs)
							hx.JournalCase("dm_roundtrip", raw)
							if err := hx.Safe(func() error { return check(raw) }); err != nil {
								stop = !c.Enum("mode_tails_exhaustive", "dm_roundtrip", cs, nil)
							}
							n++
							if L > 0 {
								nt++
							}
						}
						i := L - 1
						for i >= 0 {
							ix[i]++
							if ix[i] < len(alpha) {
								break
							}
							ix[i] = 0
							i--
						}
						if i < 0 {
							break
						}
					}
				}
			}
			c.NoteBulk("mode_tails_exhaustive", "", n, nt, func() any { return Case{Text: "qszglpuxge1A1A\u00d0", Path: "codewords"} })
			c.SetExhaustive("mode_tails_exhaustive", true)
		}

		// macro envelopes and everything that nearly is one: header without trailer, trailer without
		// header, damaged headers, doubled parts, empty bodies
		{
			heads := []string{"", "[)>\x1e05\x1d", "[)>\x1e06\x1d", "[)>\x1e07\x1d", "[)>\x1e05", "[)>\x1e5\x1d", "[)>\x1d05\x1e", "[)>\x1e05\x1e",
				"x[)>\x1e05\x1d", "[)>\x1e05\x1d[)>\x1e06\x1d", "[)>\x1e06\x1d[)>\x1e06\x1d", "[)\x1e06\x1d", "[)>\x1e16\x1d"}
			tails := []string{"", "\x1e\x04", "\x1e", "\x04", "\x1e\x04x", "\x04\x1e", "\x1e\x04\x1e\x04", "\x1d\x04", "\x1e\x1e\x04"}
			bodies := []string{"", "A", "ABC123", "12", "1234567", "abcdefgh", "AB>CD>EF>GH>", "A.B-C/D:", "\u00e9\u00e8\u00ea", "ABC\u00e9", "\x1e", "\x04", "ABCDEFGHIJKLMNOPQRSTUVWXYZ0123456789ABCDEFGHIJKLMNOPQRSTUVWXYZ"}
			idx := 0
		macro:
			for _, hd := range heads {
				for _, tl := range tails {
					for _, bd := range bodies {
						for _, path := range []string{"codewords", "image"} {
							idx++
							if !c.Mine(idx) {
								continue
							}
							text := hd + bd + tl
							if text == "" {
								continue
							}
							cs := Case{Text: text, Path: path}
							cl := "complete_envelope"
							switch {
							case hd == "" && tl == "":
								cl = "no_envelope"
							case (hd == "[)>\x1e05\x1d" || hd == "[)>\x1e06\x1d") && tl == "\x1e\x04":
							case hd == "[)>\x1e05\x1d" || hd == "[)>\x1e06\x1d":
								cl = "header_without_matching_trailer"
							case tl == "\x1e\x04":
								cl = "trailer_without_header"
							default:
								cl = "near_miss"
							}
							c.Note("macro_envelope_variants", cl, cl != "no_envelope", hx.HashS("macro", text, path), func() any { return cs })
							if !c.Enum("macro_envelope_variants", "dm_roundtrip", cs, nil) {
								break macro
							}
						}
					}
				}
			}
			c.SetExhaustive("macro_envelope_variants", true)
		}

		// every run length of every character class (alone, followed and preceded by a foreign character):
		// length boundaries of length fields (Base-256 249|250), of symbol capacities and of triplet / quadruplet groups
		{
			classes := []struct {
				name  string
				chars string
				max   [2]int // quick, thorough
			}{
				{"digits", "0123456789", [2]int{420, 3140}},
				{"upper", "ABCDEFGHIJ", [2]int{320, 2400}},
				{"lower", "abcdefghij", [2]int{320, 2400}},
				{"x12", "AB>CD*EF\r12", [2]int{320, 2400}},
				{"edifact", "A.B-C/D:E;F,", [2]int{320, 2200}},
				{"extended", "\u00e9\u00d0\u00ff\u0080\u00a0", [2]int{320, 1570}},
				{"shift2", "!\"#$%&'()", [2]int{200, 1000}},
			}
			var n int64
			idx := 0
			stop := false
			for _, cl := range classes {
				maxLen := cl.max[0]
				if c.Thorough() {
					maxLen = cl.max[1]
				}
				rs := []rune(cl.chars)
				// lengths around every symbol capacity for this class's packing density are always
				// included, also in the quick tier (e.g. the 1555-byte Base-256 run that exactly fills 144x144)
				near := map[int]bool{}
				for _, a := range dmref.Sizes {
					for _, dens := range [][2]int{{1, 1}, {2, 1}, {3, 2}, {4, 3}} { // characters per codeword
						centre := a.Data * dens[0] / dens[1]
						for d := -5; d <= 2; d++ {
							near[centre+d] = true
						}
					}
				}
				for L := 1; L <= cl.max[1] && !stop; L++ {
					if L > maxLen && !near[L] {
						continue
					}
					// quick: every length up to the quick bound, plus the capacity boundary regions
					body := make([]rune, L)
					for i := range body {
						body[i] = rs[(i*7+L)%len(rs)]
					}
					for v := 0; v < 3 && !stop; v++ {
						idx++
						if !c.Mine(idx) {
							continue
						}
						text := string(body)
						switch v {
						case 1:
							text += "a"
							if cl.name == "lower" {
								text = string(body) + "A"
							}
						case 2:
							text = "Q" + text
							if cl.name == "upper" {
								text = "q" + string(body)
							}
						}
						cs := Case{Text: text, Path: "codewords"}
						raw, _ := json.Marshal(cs)
						hx.JournalCase("dm_roundtrip", raw)
						if err := hx.Safe(func() error { return check(raw) }); err != nil {
							stop = !c.Enum("run_lengths_exhaustive", "dm_roundtrip", cs, nil)
						}
						n++
					}
				}
			}
			c.NoteBulk("run_lengths_exhaustive", "", n, n, func() any { return Case{Text: "(249 x extended)a", Path: "codewords"} })
			c.SetExhaustive("run_lengths_exhaustive", c.Thorough())
		}

		// refusal side: text outside ISO-8859-1 must be refused
		c.Rapid("not_latin1_refused", c.N(300, 3000), func(t *rapid.T) {
			pre, _ := genText(t, 10)
			r := rapid.SampledFrom([]rune{0x100, 0x20AC, 0x3042, 0x1F600, 0x0152}).Draw(t, "rune")
			cs := Case{Text: pre + string(r), Path: rapid.SampledFrom([]string{"codewords", "image"}).Draw(t, "path")}
			raw, _ := json.Marshal(cs)
			c.Note("not_latin1_refused", "", true, hx.Hash(raw), func() any { return cs })
			if err := c.Eval("dm_roundtrip", cs); err != nil {
				t.Fatalf("%v", err)
			}
		})
	})
}
