// C12: encoding is total: any content, size and hints give a symbol or an error.
package c12

import (
	"encoding/json"
	"fmt"
	"strings"
	"testing"

	"github.com/makiuchi-d/gozxing"
	"github.com/makiuchi-d/gozxing/datamatrix"
	dmenc "github.com/makiuchi-d/gozxing/datamatrix/encoder"
	"github.com/makiuchi-d/gozxing/oned"
	"github.com/makiuchi-d/gozxing/qrcode"
	qrdec "github.com/makiuchi-d/gozxing/qrcode/decoder"
	qrenc "github.com/makiuchi-d/gozxing/qrcode/encoder"
	"pgregory.net/rapid"

	"verif/internal/hx"
)

// HV is a hint value: T = type tag, plus the value in the matching field.
type HV struct {
	T string `json:"t"` // int | string | bool | ec | shape | dim | absent
	I int    `json:"i,omitempty"`
	S string `json:"s,omitempty"`
	B bool   `json:"b,omitempty"`
	D []int  `json:"d,omitempty"`
}

type Case struct {
	Writer  string        `json:"writer"`
	Content []byte        `json:"content"` // raw bytes (may be invalid UTF-8)
	Format  int           `json:"format"`
	W       int           `json:"w"`
	H       int           `json:"h"`
	Hints   map[string]HV `json:"hints"`
}

type wentry struct {
	name   string
	format gozxing.BarcodeFormat
	mk     func() gozxing.Writer
	kind   string // qr | dm | oned
}

var writers = []wentry{
	{"QR", gozxing.BarcodeFormat_QR_CODE, func() gozxing.Writer { return qrcode.NewQRCodeWriter() }, "qr"},
	{"DM", gozxing.BarcodeFormat_DATA_MATRIX, func() gozxing.Writer { return datamatrix.NewDataMatrixWriter() }, "dm"},
	{"EAN13", gozxing.BarcodeFormat_EAN_13, oned.NewEAN13Writer, "oned"},
	{"EAN8", gozxing.BarcodeFormat_EAN_8, oned.NewEAN8Writer, "oned"},
	{"UPCA", gozxing.BarcodeFormat_UPC_A, oned.NewUPCAWriter, "oned"},
	{"UPCE", gozxing.BarcodeFormat_UPC_E, oned.NewUPCEWriter, "oned"},
	{"ITF", gozxing.BarcodeFormat_ITF, oned.NewITFWriter, "oned"},
	{"CODE39", gozxing.BarcodeFormat_CODE_39, oned.NewCode39Writer, "oned"},
	{"CODE93", gozxing.BarcodeFormat_CODE_93, oned.NewCode93Writer, "oned"},
	{"CODE128", gozxing.BarcodeFormat_CODE_128, oned.NewCode128Writer, "oned"},
	{"CODABAR", gozxing.BarcodeFormat_CODABAR, oned.NewCodaBarWriter, "oned"},
}

func writerByName(n string) *wentry {
	for i := range writers {
		if writers[i].name == n {
			return &writers[i]
		}
	}
	return nil
}

var hintKeys = map[string]gozxing.EncodeHintType{
	"ERROR_CORRECTION":  gozxing.EncodeHintType_ERROR_CORRECTION,
	"CHARACTER_SET":     gozxing.EncodeHintType_CHARACTER_SET,
	"MARGIN":            gozxing.EncodeHintType_MARGIN,
	"QR_VERSION":        gozxing.EncodeHintType_QR_VERSION,
	"QR_MASK_PATTERN":   gozxing.EncodeHintType_QR_MASK_PATTERN,
	"GS1_FORMAT":        gozxing.EncodeHintType_GS1_FORMAT,
	"DATA_MATRIX_SHAPE": gozxing.EncodeHintType_DATA_MATRIX_SHAPE,
	"MIN_SIZE":          gozxing.EncodeHintType_MIN_SIZE,
	"MAX_SIZE":          gozxing.EncodeHintType_MAX_SIZE,
	"FORCE_CODE_SET":    gozxing.EncodeHintType_FORCE_CODE_SET,
}

func hintValue(v HV) interface{} {
	switch v.T {
	case "int":
		return v.I
	case "string":
		return v.S
	case "bool":
		return v.B
	case "ec":
		return []qrdec.ErrorCorrectionLevel{qrdec.ErrorCorrectionLevel_L, qrdec.ErrorCorrectionLevel_M, qrdec.ErrorCorrectionLevel_Q, qrdec.ErrorCorrectionLevel_H}[v.I%4]
	case "shape":
		return []dmenc.SymbolShapeHint{dmenc.SymbolShapeHint_FORCE_NONE, dmenc.SymbolShapeHint_FORCE_SQUARE, dmenc.SymbolShapeHint_FORCE_RECTANGLE}[v.I%3]
	case "dim":
		d, _ := gozxing.NewDimension(v.D[0], v.D[1])
		return d
	}
	return nil
}

func buildHints(c Case, skipGeometry bool) map[gozxing.EncodeHintType]interface{} {
	if c.Hints == nil {
		return nil
	}
	m := map[gozxing.EncodeHintType]interface{}{}
	for k, v := range c.Hints {
		if skipGeometry && k == "MARGIN" {
			continue
		}
		m[hintKeys[k]] = hintValue(v)
	}
	return m
}

// natural returns the symbol's own module dimensions for the same content and non-geometry hints.
func natural(we *wentry, c Case) (int, int, bool) {
	content := string(c.Content)
	switch we.kind {
	case "qr":
		level := qrdec.ErrorCorrectionLevel_L
		if v, ok := c.Hints["ERROR_CORRECTION"]; ok {
			switch v.T {
			case "ec":
				level = hintValue(v).(qrdec.ErrorCorrectionLevel)
			case "string":
				l, err := qrdec.ErrorCorrectionLevel_ValueOf(v.S)
				if err != nil {
					return 0, 0, false
				}
				level = l
			default:
				return 0, 0, false
			}
		}
		code, err := qrenc.Encoder_encode(content, level, buildHints(c, true))
		if err != nil || code == nil || code.GetMatrix() == nil {
			return 0, 0, false
		}
		return code.GetMatrix().GetWidth(), code.GetMatrix().GetHeight(), true
	case "dm":
		bm, err := we.mk().Encode(content, we.format, 0, 0, buildHints(c, true))
		if err != nil || bm == nil {
			return 0, 0, false
		}
		return bm.GetWidth(), bm.GetHeight(), true
	}
	h := buildHints(c, true)
	if h == nil {
		h = map[gozxing.EncodeHintType]interface{}{}
	}
	h[gozxing.EncodeHintType_MARGIN] = 0
	bm, err := we.mk().Encode(content, we.format, 0, 0, h)
	if err != nil || bm == nil {
		return 0, 0, false
	}
	return bm.GetWidth(), 1, true
}

func check(raw json.RawMessage) error {
	var c Case
	if err := json.Unmarshal(raw, &c); err != nil {
		return fmt.Errorf("hx: %v", err)
	}
	we := writerByName(c.Writer)
	if we == nil {
		return fmt.Errorf("hx: writer")
	}
	content := string(c.Content)
	desc := fmt.Sprintf("%s.Encode(content %q (%d bytes), format %v, %d x %d, hints %v)", c.Writer, clip(content), len(content), gozxing.BarcodeFormat(c.Format), c.W, c.H, c.Hints)
	var bm *gozxing.BitMatrix
	var err error
	if e := hx.Watch(desc, func() error {
		bm, err = we.mk().Encode(content, gozxing.BarcodeFormat(c.Format), c.W, c.H, buildHints(c, false))
		return nil
	}); e != nil {
		if hx.IsPanic(e) {
			return fmt.Errorf("PANIC in %s: %v", desc, e)
		}
		return fmt.Errorf("%v [%s]", e, desc)
	}
	if bm == nil && err == nil {
		return fmt.Errorf("neither matrix nor error [%s]", desc)
	}
	if bm != nil && err != nil {
		return fmt.Errorf("both matrix and error (%v) [%s]", err, desc)
	}
	if err != nil {
		lastOutcome = "error"
		return nil
	}
	lastOutcome = "matrix"
	if gozxing.BarcodeFormat(c.Format) != we.format {
		return fmt.Errorf("writer produced a symbol for a format it does not write [%s]", desc)
	}
	if c.W < 0 || c.H < 0 {
		return fmt.Errorf("negative size accepted [%s]", desc)
	}
	var nw, nh int
	var ok bool
	if e := hx.Watch("natural size of "+desc, func() error { nw, nh, ok = natural(we, c); return nil }); e != nil {
		return nil // the same hang/panic would have shown in the main call
	}
	if ok {
		if bm.GetWidth() < nw || bm.GetHeight() < nh {
			return fmt.Errorf("returned matrix %dx%d is smaller than the symbol it depicts (%dx%d modules) [%s]", bm.GetWidth(), bm.GetHeight(), nw, nh, desc)
		}
	}
	if we.kind != "dm" {
		rw, rh := c.W, c.H
		if rw < 1 {
			rw = 1
		}
		if rh < 1 {
			rh = 1
		}
		if bm.GetWidth() < rw || bm.GetHeight() < rh {
			return fmt.Errorf("returned matrix %dx%d is smaller than the requested %dx%d [%s]", bm.GetWidth(), bm.GetHeight(), c.W, c.H, desc)
		}
	}
	return nil
}

var lastOutcome string

func clip(s string) string {
	if len(s) > 50 {
		return s[:50] + "..."
	}
	return s
}

// ----------------------------------------------------------------- generators

func genContent(t *rapid.T, w string) []byte {
	rng := hx.NewRng(rapid.Uint64().Draw(t, "cseed"))
	digits := func(n int) []byte {
		b := make([]byte, n)
		for i := range b {
			b[i] = byte('0' + rng.Intn(10))
		}
		return b
	}
	kind := rapid.IntRange(0, 14).Draw(t, "ckind")
	if w == "CODE128" && rapid.Bool().Draw(t, "c128") {
		// digits, letters, controls and the FNC1..FNC4 escape characters in short mixtures
		n := rapid.IntRange(1, 12).Draw(t, "n128")
		var sb strings.Builder
		pool := []rune("0123456789Aa\x01 ~\u00f1\u00f2\u00f3\u00f4")
		if rapid.Bool().Draw(t, "c128digits") {
			pool = []rune("0123456789\u00f1") // what forced code set C lets through
		}
		for i := 0; i < n; i++ {
			sb.WriteRune(pool[rng.Intn(len(pool))])
		}
		return []byte(sb.String())
	}
	switch kind {
	case 0:
		return nil
	case 1: // plausible for the writer
		switch w {
		case "EAN13":
			return digits([]int{12, 13, 13}[rng.Intn(3)])
		case "EAN8":
			return digits([]int{7, 8}[rng.Intn(2)])
		case "UPCA":
			return digits([]int{11, 12}[rng.Intn(2)])
		case "UPCE":
			b := digits([]int{7, 8}[rng.Intn(2)])
			b[0] = byte('0' + rng.Intn(3))
			return b
		case "ITF":
			return digits(2 * rng.Intn(45))
		case "CODABAR":
			return []byte("A" + string(digits(1+rng.Intn(20))) + "B")
		}
		return digits(1 + rng.Intn(60))
	case 2: // digits of any length
		return digits(rapid.IntRange(1, 100).Draw(t, "ndig"))
	case 3: // ASCII
		n := rapid.IntRange(1, 120).Draw(t, "nascii")
		b := make([]byte, n)
		for i := range b {
			b[i] = byte(rng.Intn(128))
		}
		return b
	case 4: // arbitrary bytes (invalid UTF-8)
		n := rapid.IntRange(1, 200).Draw(t, "nbytes")
		b := make([]byte, n)
		for i := range b {
			b[i] = byte(rng.U64())
		}
		return b
	case 5: // non-Latin text
		return []byte(strings.Repeat("日本語テキスト😀", 1+rng.Intn(6)))
	case 6: // Latin-1 text
		n := rapid.IntRange(1, 150).Draw(t, "nlat")
		var sb strings.Builder
		for i := 0; i < n; i++ {
			sb.WriteRune(rune(0x20 + rng.Intn(0xE0)))
		}
		return []byte(sb.String())
	case 7: // very long
		n := rapid.IntRange(1000, 4000).Draw(t, "nlong")
		b := make([]byte, n)
		alpha := []string{"0123456789", "ABCDEFGHIJ KLM", "abc>*\r012XYZ", "ab!\"#12AB~`"}[rng.Intn(4)]
		for i := range b {
			b[i] = alpha[rng.Intn(len(alpha))]
		}
		return b
	case 8: // X12 / EDIFACT flavoured runs ending mid-group
		n := rapid.IntRange(1, 40).Draw(t, "nx12")
		b := make([]byte, n)
		alpha := "ABC123>*\r "
		if rng.Bool() {
			alpha = "A.B-C/D:E;F,01 "
		}
		for i := range b {
			b[i] = alpha[rng.Intn(len(alpha))]
		}
		if rng.Bool() {
			b = append(b, []byte{'a', 0xC3, 0xA9, '~'}[rng.Intn(4)])
		}
		return b
	case 13, 14: // runs of each encodation's native characters, each run followed by a character that is rare in it
		classes := []string{"abcdefghij klm", "ABCDEFGHIJ KLM", "0123456789", "AB>CD*EF\r12", "A.B-C/D:E;F,", "\u00e9\u00e8\u00d0\u00a0", "!\"#$%&'()"}
		rare := []rune{0x7f, 0xff, 0x80, 0x00, 0x1f, '`', '{', '~', 0x1e, 0x04, 0x60, 0x5b, 0x40, 0x9f}
		var sb strings.Builder
		for r, nr := 0, rapid.IntRange(1, 6).Draw(t, "nruns"); r < nr; r++ {
			cl := []rune(classes[rng.Intn(len(classes))])
			for i, n := 0, 1+rng.Intn(14); i < n; i++ {
				sb.WriteRune(cl[rng.Intn(len(cl))])
			}
			if rng.Intn(3) != 0 {
				sb.WriteRune(rare[rng.Intn(len(rare))])
			}
		}
		return []byte(sb.String())
	case 9: // wrong characters for 1-D
		return []byte("12345-ABC$/+%. *")
	case 12: // decimal digits of other scripts (valid UTF-8, not ASCII), alone or mixed with ASCII digits
		pools := [][]rune{[]rune("٠١٢٣٤٥٦٧٨٩"), []rune("０１２３４５６７８９"), []rune("०१२३४५६७८९"), []rune("0123456789٣５")}
		pool := pools[rng.Intn(len(pools))]
		n := rapid.IntRange(1, 30).Draw(t, "nforeign")
		var sb strings.Builder
		for i := 0; i < n; i++ {
			sb.WriteRune(pool[rng.Intn(len(pool))])
		}
		return []byte(sb.String())
	case 10: // guards / escapes
		return []byte([]string{"A", "AB", "A1", "TN", "*", "1+", "%", "$A/", "ññ12", "ò", "abôc"}[rng.Intn(11)])
	}
	return digits(1 + rng.Intn(20))
}

func genInt(t *rapid.T, label string, special []int, lo, hi int) int {
	if rapid.Bool().Draw(t, label+"sp") {
		return rapid.SampledFrom(special).Draw(t, label+"s")
	}
	return rapid.IntRange(lo, hi).Draw(t, label)
}

func genHints(t *rapid.T) map[string]HV {
	if rapid.IntRange(0, 3).Draw(t, "nohints") == 0 {
		return nil
	}
	m := map[string]HV{}
	maybe := func(k string, f func() HV) {
		if rapid.IntRange(0, 2).Draw(t, "has_"+k) == 0 {
			m[k] = f()
		}
	}
	maybe("ERROR_CORRECTION", func() HV {
		switch rapid.IntRange(0, 2).Draw(t, "ecT") {
		case 0:
			return HV{T: "ec", I: rapid.IntRange(0, 3).Draw(t, "ec")}
		case 1:
			return HV{T: "string", S: rapid.SampledFrom([]string{"L", "M", "Q", "H", "l", "", "X", "HH", "7"}).Draw(t, "ecs")}
		}
		return HV{T: "int", I: rapid.IntRange(-1, 5).Draw(t, "eci")}
	})
	maybe("CHARACTER_SET", func() HV {
		return HV{T: "string", S: rapid.SampledFrom([]string{"UTF-8", "UTF8", "ISO-8859-1", "Shift_JIS", "SJIS", "Cp437", "UTF-16BE", "GB2312", "EUC_KR", "ASCII", "", "utf-8", "nonsense", "UTF-7"}).Draw(t, "cs")}
	})
	maybe("MARGIN", func() HV {
		v := genInt(t, "margin", []int{0, -1, -9, -10, -11, -95, -100, 4, 300}, -200, 200)
		if rapid.IntRange(0, 3).Draw(t, "marginstr") == 0 {
			return HV{T: "string", S: rapid.SampledFrom([]string{fmt.Sprint(v), "", "x", "4.5", " 3"}).Draw(t, "ms")}
		}
		return HV{T: "int", I: v}
	})
	maybe("QR_VERSION", func() HV {
		v := genInt(t, "qrv", []int{0, 1, 40, 41, -1}, -2, 45)
		if rapid.IntRange(0, 3).Draw(t, "qrvstr") == 0 {
			return HV{T: "string", S: rapid.SampledFrom([]string{fmt.Sprint(v), "", "x"}).Draw(t, "qvs")}
		}
		return HV{T: "int", I: v}
	})
	maybe("QR_MASK_PATTERN", func() HV {
		if rapid.IntRange(0, 3).Draw(t, "maskstr") == 0 {
			return HV{T: "string", S: rapid.SampledFrom([]string{"0", "7", "8", "-1", "x", ""}).Draw(t, "mks")}
		}
		return HV{T: "int", I: rapid.IntRange(-1, 9).Draw(t, "mask")}
	})
	maybe("GS1_FORMAT", func() HV {
		switch rapid.IntRange(0, 2).Draw(t, "gsT") {
		case 0:
			return HV{T: "bool", B: rapid.Bool().Draw(t, "gsb")}
		case 1:
			return HV{T: "string", S: rapid.SampledFrom([]string{"true", "false", "junk", ""}).Draw(t, "gss")}
		}
		return HV{T: "int", I: 1}
	})
	maybe("DATA_MATRIX_SHAPE", func() HV {
		if rapid.IntRange(0, 4).Draw(t, "shapeT") == 0 {
			return HV{T: "string", S: "FORCE_SQUARE"}
		}
		return HV{T: "shape", I: rapid.IntRange(0, 2).Draw(t, "shape")}
	})
	dim := func(l string) HV {
		if rapid.IntRange(0, 5).Draw(t, l+"T") == 0 {
			return HV{T: "int", I: 10}
		}
		return HV{T: "dim", D: []int{genInt(t, l+"w", []int{0, 8, 10, 18, 32, 144, 145, 1000}, 0, 160), genInt(t, l+"h", []int{0, 8, 10, 18, 32, 144, 145, 1000}, 0, 160)}}
	}
	maybe("MIN_SIZE", func() HV { return dim("min") })
	maybe("MAX_SIZE", func() HV { return dim("max") })
	maybe("FORCE_CODE_SET", func() HV {
		return HV{T: "string", S: rapid.SampledFrom([]string{"A", "B", "C", "D", "", "a"}).Draw(t, "fcs")}
	})
	if len(m) == 0 {
		return nil
	}
	return m
}

func TestCheck(t *testing.T) {
	hx.Main(t, "C12", func(c *hx.Ctx) {
		c.Register("encode_total", check)
	}, func(c *hx.Ctx) {
		// every character value after a prefix that has put the Data Matrix encoder into each of its
		// encodation modes (and alone), through the writer: it must return
		{
			prefixes := []string{"", "qszglpuxge", "QSZGLPUXGE", "AB>CD>EF>GH>", "A.B-C/D:E;F,", "\u00e9\u00e8\u00ea\u00eb\u00ec\u00ed", "12345678"}
			var dm *wentry
			for wi := range writers {
				if writers[wi].kind == "dm" {
					dm = &writers[wi]
				}
			}
			idx := 0
			for _, pfx := range prefixes {
				for v := 0; v < 256 && dm != nil; v++ {
					for _, tail := range []string{"", "ab", "AB1"} {
						idx++
						if !c.Mine(idx) {
							continue
						}
						cs := Case{Writer: dm.name, Content: []byte(pfx + string(rune(v)) + tail), Format: int(dm.format)}
						c.Note("dm_all_chars_after_each_mode", fmt.Sprintf("prefix=%q", pfx), true, hx.HashS("dmchars", string(cs.Content)), func() any { return cs })
						if !c.Enum("dm_all_chars_after_each_mode", "encode_total", cs, nil) {
							break
						}
					}
				}
			}
			c.SetExhaustive("dm_all_chars_after_each_mode", true)

			// every tail of <= 4 (thorough: 5) characters over one representative per character class,
			// after the same prefixes and after short X12 / EDIFACT openings: end-of-data handling of
			// every encodation at every group alignment and symbol fill
			alpha := []rune{'1', 'A', 'a', ' ', '\r', '>', '*', '`', 0xD0}
			pfx2 := append(append([]string(nil), prefixes...), "AB>", "AB>C", "AB>CD", "A.B-", "A.B-C")
			maxL := c.N(4, 5)
			var n int64
			stop := false
			for _, pfx := range pfx2 {
				for L := 1; L <= maxL && !stop && dm != nil; L++ {
					ix := make([]int, L)
					for !stop {
						idx++
						if c.Mine(idx) {
							rs := make([]rune, L)
							for i, k := range ix {
								rs[i] = alpha[k]
							}
							cs := Case{Writer: dm.name, Content: []byte(pfx + string(rs)), Format: int(dm.format)}
							raw, _ := json.Marshal(cs)
							hx.JournalCase("encode_total", raw)
							if err := hx.Safe(func() error { return check(raw) }); err != nil {
								stop = !c.Enum("dm_tails_exhaustive", "encode_total", cs, nil)
							}
							n++
						}
						i := L - 1
						for i >= 0 {
							ix[i]++
							if ix[i] < len(alpha) {
								break
							}
							ix[i] = 0
							i--
						}
						if i < 0 {
							break
						}
					}
				}
			}
			c.NoteBulk("dm_tails_exhaustive", "", n, n, func() any { return Case{Writer: "DM", Content: []byte("AB>*\r1")} })
			c.SetExhaustive("dm_tails_exhaustive", true)
		}
		for wi := range writers {
			we := writers[wi]
			sub := "encode_" + we.name
			c.RapidIdx(sub, wi, c.N(400, 20000), 0, func(t *rapid.T) {
				cs := Case{Writer: we.name, Content: genContent(t, we.name), Format: int(we.format), Hints: genHints(t)}
				if we.name == "CODE128" && rapid.Bool().Draw(t, "forceset") {
					if cs.Hints == nil {
						cs.Hints = map[string]HV{}
					}
					cs.Hints["FORCE_CODE_SET"] = HV{T: "string", S: rapid.SampledFrom([]string{"A", "B", "C", "C"}).Draw(t, "fset")}
				}
				if rapid.IntRange(0, 7).Draw(t, "otherformat") == 0 {
					cs.Format = rapid.IntRange(0, 16).Draw(t, "format")
				}
				size := func(l string) int {
					switch rapid.IntRange(0, 5).Draw(t, l+"k") {
					case 0:
						return 0
					case 1:
						return rapid.IntRange(-5, -1).Draw(t, l+"neg")
					case 2:
						return rapid.IntRange(1, 40).Draw(t, l+"small")
					case 3:
						return rapid.IntRange(1, 2000).Draw(t, l+"big")
					}
					return rapid.IntRange(1, 300).Draw(t, l)
				}
				cs.W, cs.H = size("w"), size("h")
				if we.kind != "oned" && cs.H > 600 {
					cs.H = 600 // keep 2-D images small enough that memory is never the reason for a failure
				}
				if we.kind != "oned" && cs.W > 600 {
					cs.W = 600
				}
				raw, _ := json.Marshal(cs)
				lastOutcome = "skipped"
				err := c.Eval("encode_total", cs)
				cl := "outcome=" + lastOutcome
				oor := false
				for k, v := range cs.Hints {
					cl += ";hint=" + k
					if (k == "MARGIN" && v.T == "int" && v.I < 0) || (k == "QR_VERSION" && v.T == "int" && (v.I < 1 || v.I > 40)) || (k == "QR_MASK_PATTERN" && v.T == "int" && (v.I < 0 || v.I > 7)) {
						oor = true
					}
				}
				if oor {
					cl += ";out_of_range_hint"
				}
				c.Note(sub, cl, lastOutcome == "matrix" || oor, hx.Hash(raw), func() any {
					s := cs
					if len(s.Content) > 60 {
						s.Content = s.Content[:60]
					}
					return s
				})
				if err != nil {
					t.Fatalf("%v", err)
				}
			})
		}
	})
}
