// C11: Aztec: conforming symbols of every size decode to their text.
package c11

import (
	"encoding/json"
	"fmt"
	"math"
	"strings"
	"testing"

	"github.com/makiuchi-d/gozxing"
	"github.com/makiuchi-d/gozxing/aztec"
	azdec "github.com/makiuchi-d/gozxing/aztec/decoder"
	azdet "github.com/makiuchi-d/gozxing/aztec/detector"
	cdet "github.com/makiuchi-d/gozxing/common/detector"
	"pgregory.net/rapid"

	"verif/internal/azref"
	"verif/internal/hx"
	"verif/internal/imgx"
)

type Case struct {
	Tokens  []azref.Token `json:"tokens"`
	Compact bool          `json:"compact"`
	Layers  int           `json:"layers"` // 0: smallest size that holds the data
	Level   string        `json:"level"`  // bits | matrix | image
	Rot     int           `json:"rot,omitempty"`
	Scale   int           `json:"scale,omitempty"`
	Quiet   int           `json:"quiet,omitempty"`    // quiet zone in modules
	PadX    int           `json:"pad_x,omitempty"`    // further white, in modules, on the left and on the right (non-square picture)
	PadY    int           `json:"pad_y,omitempty"`    // the same above and below
	Damage  [][2]int      `json:"damage,omitempty"`   // (codeword index, xor value)
	ModeDmg [][2]int      `json:"mode_dmg,omitempty"` // (nibble index, xor value 1..15)
}

func matrixOf(sym *azref.Symbol) *gozxing.BitMatrix {
	bm, _ := gozxing.NewBitMatrix(sym.Size, sym.Size)
	for y := 0; y < sym.Size; y++ {
		for x := 0; x < sym.Size; x++ {
			if sym.M[y][x] {
				bm.Set(x, y)
			}
		}
	}
	return bm
}

func check(raw json.RawMessage) error {
	var c Case
	if err := json.Unmarshal(raw, &c); err != nil {
		return fmt.Errorf("hx: %v", err)
	}
	bits, text, err := azref.Encode(c.Tokens)
	if err != nil {
		return fmt.Errorf("hx: %v", err)
	}
	if c.Level == "bits" {
		got, err := azdec.NewDecoder().HighLevelDecode(bits)
		if err != nil {
			return fmt.Errorf("HighLevelDecode failed: %v [expected %q, %d bits]", err, clip(text), len(bits))
		}
		if got != text {
			return fmt.Errorf("HighLevelDecode = %q, the token walk encodes %q", clip(got), clip(text))
		}
		return nil
	}
	spec := azref.Spec{Compact: c.Compact, Layers: c.Layers}
	if c.Layers == 0 {
		var ok bool
		if spec, ok = azref.SmallestSpec(bits, 3); !ok {
			return fmt.Errorf("hx: data does not fit any size")
		}
	}
	sym, ok := azref.Build(bits, spec, 3)
	if !ok {
		return fmt.Errorf("hx: data does not fit %v", spec)
	}
	t := (len(sym.Words) - sym.DataWords) / 2
	if len(c.Damage) > t {
		return fmt.Errorf("hx: %d damaged codewords exceed capacity %d", len(c.Damage), t)
	}
	bm := matrixOf(sym)
	seen := map[int]bool{}
	w := spec.WordSize()
	for _, d := range c.Damage {
		if d[0] < 0 || d[0] >= len(sym.Words) || seen[d[0]] || d[1] < 1 || d[1] >= 1<<uint(w) {
			return fmt.Errorf("hx: bad damage %v", d)
		}
		seen[d[0]] = true
		for b := 0; b < w; b++ {
			if d[1]&(1<<uint(w-1-b)) != 0 {
				m := sym.WordModules[d[0]][b]
				bm.Flip(m[0], m[1])
			}
		}
	}
	desc := fmt.Sprintf("%v, %d data + %d check words of %d bits, %d damaged codewords, text %q", spec, sym.DataWords, len(sym.Words)-sym.DataWords, w, len(c.Damage), clip(text))
	if c.Level == "matrix" {
		pts := []gozxing.ResultPoint{gozxing.NewResultPoint(0, 0), gozxing.NewResultPoint(float64(sym.Size), 0), gozxing.NewResultPoint(float64(sym.Size), float64(sym.Size)), gozxing.NewResultPoint(0, float64(sym.Size))}
		res, err := azdec.NewDecoder().Decode(azdet.NewAztecDetectorResult(bm, pts, spec.Compact, sym.DataWords, spec.Layers))
		if err != nil {
			return fmt.Errorf("decoder.Decode failed: %v [%s]", err, desc)
		}
		if res.GetText() != text {
			return fmt.Errorf("decoder.Decode = %q [%s]", clip(res.GetText()), desc)
		}
		return nil
	}
	img, err := imageOf(c, sym, bm)
	if err != nil {
		return err
	}
	bmp, err := gozxing.NewBinaryBitmapFromImage(img)
	if err != nil {
		return fmt.Errorf("hx: bitmap: %v", err)
	}
	res, err := aztec.NewAztecReader().Decode(bmp, nil)
	desc += fmt.Sprintf(", rotation %d, scale %d, quiet zone %d modules, %d damaged mode nibbles, picture %dx%d", c.Rot*90, c.Scale, c.Quiet, len(c.ModeDmg), img.GetWidth(), img.GetHeight())
	if err != nil {
		return fmt.Errorf("AztecReader.Decode failed on a clean conforming symbol image: %v [%s]", err, desc)
	}
	if res.GetText() != text || res.GetBarcodeFormat() != gozxing.BarcodeFormat_AZTEC {
		return fmt.Errorf("AztecReader.Decode = %q (%v) [%s]", clip(res.GetText()), res.GetBarcodeFormat(), desc)
	}
	return nil
}

// imageOf applies mode-message damage (within its correction capacity) and the pose.
func imageOf(c Case, sym *azref.Symbol, bm *gozxing.BitMatrix) (*gozxing.BitMatrix, error) {
	spec := sym.Spec
	maxMode := 2
	if !spec.Compact {
		maxMode = 3
	}
	if len(c.ModeDmg) > maxMode {
		return nil, fmt.Errorf("hx: mode damage")
	}
	seenN := map[int]bool{}
	for _, d := range c.ModeDmg {
		if seenN[d[0]] || d[0] < 0 || d[0]*4+3 >= len(sym.ModeModules) || d[1] < 1 || d[1] > 15 {
			return nil, fmt.Errorf("hx: bad mode damage %v", d)
		}
		seenN[d[0]] = true
		for b := 0; b < 4; b++ {
			if d[1]&(8>>uint(b)) != 0 {
				m := sym.ModeModules[d[0]*4+b]
				bm.Flip(m[0], m[1])
			}
		}
	}
	img := imgx.Scale(bm, c.Scale)
	img = imgx.Rotate(img, c.Rot)
	q := c.Quiet * c.Scale
	// imgx.Pad(m, left, top, right, bottom): the symbol stays in the middle of the picture
	return imgx.Pad(img, q+c.PadX*c.Scale, q+c.PadY*c.Scale, q+c.PadX*c.Scale, q+c.PadY*c.Scale), nil
}

// centreDeviation: distance, in modules, between the true centre of the symbol and the centre the
// library's whole-image white-rectangle detection (the first stage of the Aztec detector) arrives at.
// Known finding aztec-centre-estimate: the detector misses the bull's eye when this is >= 0.5.
func centreDeviation(img *gozxing.BitMatrix, scale int) float64 {
	d, err := cdet.NewWhiteRectangleDetectorFromImage(img)
	if err != nil {
		return -1
	}
	pts, err := d.Detect()
	if err != nil {
		return -1
	}
	cx, cy := 0.0, 0.0
	for _, p := range pts {
		cx += p.GetX() / 4
		cy += p.GetY() / 4
	}
	tcx, tcy := float64(img.GetWidth())/2, float64(img.GetHeight())/2
	return math.Max(math.Abs(cx-tcx), math.Abs(cy-tcy)) / float64(scale)
}

// rebuild reconstructs symbol, damaged matrix and image of an image-level case.
// ---- the upstream bull's-eye ring walk, ported independently (used only to decide whether a
// ring-count failure is inherent in that heuristic or a deviation of the library from it) --------

type azPt struct{ x, y int }

func azRound(d float64) int {
	if d < 0 {
		return int(d - 0.5)
	}
	return int(d + 0.5)
}

func azDist(a, b azPt) float64 {
	return math.Sqrt(float64((a.x-b.x)*(a.x-b.x) + (a.y-b.y)*(a.y-b.y)))
}

func azValid(img *gozxing.BitMatrix, x, y int) bool {
	return x >= 0 && x < img.GetWidth() && y >= 0 && y < img.GetHeight()
}

func azFirstDifferent(img *gozxing.BitMatrix, init azPt, color bool, dx, dy int) azPt {
	x, y := init.x+dx, init.y+dy
	for azValid(img, x, y) && img.Get(x, y) == color {
		x += dx
		y += dy
	}
	x -= dx
	y -= dy
	for azValid(img, x, y) && img.Get(x, y) == color {
		x += dx
	}
	x -= dx
	for azValid(img, x, y) && img.Get(x, y) == color {
		y += dy
	}
	y -= dy
	return azPt{x, y}
}

func azColor(img *gozxing.BitMatrix, p1, p2 azPt) int {
	d := azDist(p1, p2)
	if d == 0 {
		return 0
	}
	dx, dy := float64(p2.x-p1.x)/d, float64(p2.y-p1.y)/d
	errs := 0
	px, py := float64(p1.x), float64(p1.y)
	model := img.Get(p1.x, p1.y)
	for i, n := 0, int(math.Floor(d)); i < n; i++ {
		if img.Get(azRound(px), azRound(py)) != model {
			errs++
		}
		px += dx
		py += dy
	}
	ratio := float64(errs) / d
	if ratio > 0.1 && ratio < 0.9 {
		return 0
	}
	if (ratio <= 0.1) == model {
		return 1
	}
	return -1
}

func azIsRect(img *gozxing.BitMatrix, p1, p2, p3, p4 azPt) bool {
	const corr = 3
	w, h := img.GetWidth(), img.GetHeight()
	p1 = azPt{max(0, p1.x-corr), min(h-1, p1.y+corr)}
	p2 = azPt{max(0, p2.x-corr), max(0, p2.y-corr)}
	p3 = azPt{min(w-1, p3.x+corr), max(0, min(h-1, p3.y-corr))}
	p4 = azPt{min(w-1, p4.x+corr), min(h-1, p4.y+corr)}
	c0 := azColor(img, p4, p1)
	if c0 == 0 {
		return false
	}
	return azColor(img, p1, p2) == c0 && azColor(img, p2, p3) == c0 && azColor(img, p3, p4) == c0
}

// azRingCount returns the number of bull's-eye rings the upstream walk counts on img (5 = compact,
// 7 = full range), or -1 when the centre cannot be established the way the library does it.
func azRingCount(img *gozxing.BitMatrix) int {
	corners := func(d *cdet.WhiteRectangleDetector, e error, cx, cy int) [4][2]float64 {
		if e == nil {
			if pts, err := d.Detect(); err == nil && len(pts) == 4 {
				return [4][2]float64{{pts[0].GetX(), pts[0].GetY()}, {pts[1].GetX(), pts[1].GetY()}, {pts[2].GetX(), pts[2].GetY()}, {pts[3].GetX(), pts[3].GetY()}}
			}
		}
		a := azFirstDifferent(img, azPt{cx + 7, cy - 7}, false, 1, -1)
		b := azFirstDifferent(img, azPt{cx + 7, cy + 7}, false, 1, 1)
		c := azFirstDifferent(img, azPt{cx - 7, cy + 7}, false, -1, 1)
		d2 := azFirstDifferent(img, azPt{cx - 7, cy - 7}, false, -1, -1)
		return [4][2]float64{{float64(a.x), float64(a.y)}, {float64(b.x), float64(b.y)}, {float64(c.x), float64(c.y)}, {float64(d2.x), float64(d2.y)}}
	}
	mean := func(p [4][2]float64) (int, int) {
		return azRound((p[0][0] + p[3][0] + p[1][0] + p[2][0]) / 4.0), azRound((p[0][1] + p[3][1] + p[1][1] + p[2][1]) / 4.0)
	}
	d, e := cdet.NewWhiteRectangleDetectorFromImage(img)
	cx, cy := mean(corners(d, e, img.GetWidth()/2, img.GetHeight()/2))
	d, e = cdet.NewWhiteRectangleDetector(img, 15, cx, cy)
	cx, cy = mean(corners(d, e, cx, cy))
	pa, pb, pc, pd := azPt{cx, cy}, azPt{cx, cy}, azPt{cx, cy}, azPt{cx, cy}
	color := true
	n := 1
	for ; n < 9; n++ {
		oa := azFirstDifferent(img, pa, color, 1, -1)
		ob := azFirstDifferent(img, pb, color, 1, 1)
		oc := azFirstDifferent(img, pc, color, -1, 1)
		od := azFirstDifferent(img, pd, color, -1, -1)
		if n > 2 {
			q := azDist(od, oa) * float64(n) / (azDist(pd, pa) * float64(n+2))
			if q < 0.75 || q > 1.25 || !azIsRect(img, oa, ob, oc, od) {
				break
			}
		}
		pa, pb, pc, pd = oa, ob, oc, od
		color = !color
	}
	return n
}

func rebuild(c Case) (*gozxing.BitMatrix, error) {
	bits, _, err := azref.Encode(c.Tokens)
	if err != nil {
		return nil, err
	}
	sym, ok := azref.Build(bits, azref.Spec{Compact: c.Compact, Layers: c.Layers}, 3)
	if !ok {
		return nil, fmt.Errorf("does not fit")
	}
	bm := matrixOf(sym)
	w := sym.Spec.WordSize()
	for _, d := range c.Damage {
		for b := 0; b < w; b++ {
			if d[1]&(1<<uint(w-1-b)) != 0 {
				m := sym.WordModules[d[0]][b]
				bm.Flip(m[0], m[1])
			}
		}
	}
	return imageOf(c, sym, bm)
}

func clip(s string) string {
	if len(s) > 60 {
		return s[:60] + "..."
	}
	return s
}

// ----------------------------------------------------------------- generator

// walk draws a token sequence of roughly the requested number of data bits.
func walk(t *rapid.T, targetBits int) ([]azref.Token, map[string]bool) {
	var toks []azref.Token
	used := map[string]bool{}
	cur := azref.Upper
	bits := 0
	for bits < targetBits {
		k := rapid.IntRange(0, 19).Draw(t, "step")
		switch {
		case k < 10: // plain character(s)
			codes := azref.CharCodes(cur)
			n := rapid.IntRange(1, 6).Draw(t, "run")
			for i := 0; i < n; i++ {
				toks = append(toks, azref.Token{Kind: "char", Code: codes[rapid.IntRange(0, len(codes)-1).Draw(t, "code")]})
				if cur == azref.Digit {
					bits += 4
				} else {
					bits += 5
				}
			}
			used["table_"+azref.TableNames[cur]] = true
		case k < 14: // latch
			ls := azref.Latches(cur)
			to := ls[rapid.IntRange(0, len(ls)-1).Draw(t, "latch")]
			toks = append(toks, azref.Token{Kind: "latch", Code: to})
			bits += 5
			cur = to
			used["latch"] = true
		case k < 16: // punctuation shift
			if cur == azref.Punct {
				continue
			}
			toks = append(toks, azref.Token{Kind: "ps", Code: rapid.IntRange(1, 30).Draw(t, "pscode")})
			bits += 10
			used["shift_punct"] = true
		case k < 17: // upper shift
			if cur != azref.Lower && cur != azref.Digit {
				continue
			}
			toks = append(toks, azref.Token{Kind: "us", Code: rapid.IntRange(1, 27).Draw(t, "uscode")})
			bits += 10
			used["shift_upper"] = true
		case k < 19: // binary shift
			if cur == azref.Punct || cur == azref.Digit {
				continue
			}
			n := rapid.IntRange(1, 31).Draw(t, "bslen")
			if rapid.IntRange(0, 4).Draw(t, "bslong") == 0 {
				n = rapid.IntRange(32, 90).Draw(t, "bslonglen")
				used["binary_long"] = true
			} else {
				used["binary_short"] = true
			}
			b := make([]byte, n)
			rng := hx.NewRng(rapid.Uint64().Draw(t, "bsseed"))
			for i := range b {
				b[i] = byte(rng.U64())
			}
			toks = append(toks, azref.Token{Kind: "bs", Bytes: b})
			bits += 10 + 8*n
		default: // FNC1
			if cur != azref.Punct {
				continue
			}
			toks = append(toks, azref.Token{Kind: "fnc1"})
			bits += 8
			used["fnc1"] = true
		}
	}
	return toks, used
}

func classOf(spec azref.Spec, used map[string]bool, extra string) (string, bool) {
	cl := "size=" + spec.String() + fmt.Sprintf(";wordsize=%d", spec.WordSize())
	tables := 0
	for k := range used {
		cl += ";" + k
		if len(k) > 6 && k[:6] == "table_" {
			tables++
		}
	}
	nt := tables >= 2 || used["binary_short"] || used["binary_long"]
	if extra != "" {
		cl += ";" + extra
	}
	return cl, nt
}

func sample(c Case) any {
	s := c
	if len(s.Tokens) > 12 {
		s.Tokens = s.Tokens[:12]
	}
	for i := range s.Tokens {
		if len(s.Tokens[i].Bytes) > 8 {
			s.Tokens[i].Bytes = s.Tokens[i].Bytes[:8]
		}
	}
	return s
}

func drawDamage(t *rapid.T, sym *azref.Symbol, mode string) [][2]int {
	tcap := (len(sym.Words) - sym.DataWords) / 2
	n := 0
	switch mode {
	case "capacity":
		n = tcap
	case "some":
		n = rapid.IntRange(0, tcap).Draw(t, "ndmg")
	}
	if n > 60 {
		n = 60 + rapid.IntRange(0, 1).Draw(t, "cap60")*(tcap-60) // mostly bounded, sometimes full capacity
	}
	perm := make([]int, len(sym.Words))
	for i := range perm {
		perm[i] = i
	}
	var out [][2]int
	w := sym.Spec.WordSize()
	for k := 0; k < n; k++ {
		j := rapid.IntRange(k, len(perm)-1).Draw(t, "pick")
		perm[k], perm[j] = perm[j], perm[k]
		out = append(out, [2]int{perm[k], rapid.IntRange(1, 1<<uint(w)-1).Draw(t, "xor")})
	}
	return out
}

func TestCheck(t *testing.T) {
	hx.Main(t, "C11", func(c *hx.Ctx) {
		c.Register("aztec", check)
		c.RegisterMatcher("aztec-centre-estimate", func(raw json.RawMessage, err error) bool {
			var cs Case
			if json.Unmarshal(raw, &cs) != nil || cs.Level != "image" || cs.Layers == 0 {
				return false
			}
			if !strings.Contains(err.Error(), "AztecReader.Decode failed") || !strings.Contains(err.Error(), "NotFoundException") {
				return false
			}
			img, e := rebuild(cs)
			if e != nil {
				return false
			}
			dev := centreDeviation(img, cs.Scale)
			if !(dev < 0 || dev >= 0.5) {
				return false
			}
			// when the library says how many rings it counted, the independently ported upstream
			// ring walk must arrive at the same (wrong) count on this picture
			if i := strings.Index(err.Error(), "nbCenterLayers = "); i >= 0 {
				n := 0
				fmt.Sscanf(err.Error()[i+len("nbCenterLayers = "):], "%d", &n)
				return azRingCount(img) == n
			}
			return true
		})
		// second class: the centre estimate is right, but the ring walk accepts one ring too many
		// (ring count 6 for a compact, 8 for a full-range symbol). Keyed to the library's own
		// diagnostic and to the fact that the very same symbol is read at another scale in the same
		// rotation - a defect in the symbol handling itself would not go away with the scale.
		c.RegisterMatcher("aztec-bullseye-ring-overcount", func(raw json.RawMessage, err error) bool {
			var cs Case
			if json.Unmarshal(raw, &cs) != nil || cs.Level != "image" || cs.Layers == 0 {
				return false
			}
			want := "nbCenterLayers = 8"
			if cs.Compact {
				want = "nbCenterLayers = 6"
			}
			if !strings.Contains(err.Error(), "AztecReader.Decode failed") || !strings.Contains(err.Error(), want) {
				return false
			}
			img, e := rebuild(cs)
			if e != nil {
				return false
			}
			if dev := centreDeviation(img, cs.Scale); dev < 0 || dev >= 0.5 {
				return false
			}
			// the independently ported upstream ring walk must overcount on this picture as well:
			// a library that deviates from the heuristic (and overcounts where it does not) is not excused
			wantRings := 8
			if cs.Compact {
				wantRings = 6
			}
			if azRingCount(img) != wantRings {
				return false
			}
			others := 0
			for sc := 2; sc <= 5; sc++ {
				if sc == cs.Scale {
					continue
				}
				c2 := cs
				c2.Scale = sc
				im2, e2 := rebuild(c2)
				if e2 != nil {
					continue
				}
				bmp, _ := gozxing.NewBinaryBitmapFromImage(im2)
				if _, e3 := aztec.NewAztecReader().Decode(bmp, nil); e3 == nil {
					others++
				}
			}
			return others >= 2
		})
	}, func(c *hx.Ctx) {
		// (1) high-level decode of token walks
		c.Rapid("high_level_walks", c.N(2500, 80000), func(t *rapid.T) {
			toks, used := walk(t, rapid.IntRange(5, 600).Draw(t, "bits"))
			cs := Case{Tokens: toks, Level: "bits"}
			cl, nt := classOf(azref.Spec{}, used, "")
			raw, _ := json.Marshal(cs)
			c.Note("high_level_walks", cl[len("size=full-0;wordsize=6"):], nt, hx.Hash(raw), func() any { return sample(cs) })
			if err := c.Eval("aztec", cs); err != nil {
				t.Fatalf("%v", err)
			}
		})
		// (2) every one of the 36 sizes at matrix level, with damage
		specs := azref.AllSpecs()
		for si, spec := range specs {
			if !c.Mine(si) {
				continue
			}
			spec := spec
			sub := "matrix_all_sizes"
			c.RapidIdx(sub, si, c.N(4, 30), 0, func(t *rapid.T) {
				// fill between 30% and 85% of the symbol
				total := spec.TotalBits()
				target := total * rapid.IntRange(30, 85).Draw(t, "fill") / 100
				if spec.Compact && target > 64*spec.WordSize()*8/10 {
					target = 64 * spec.WordSize() * 8 / 10
				}
				toks, used := walk(t, target)
				bits, _, err := azref.Encode(toks)
				if err != nil {
					t.Fatalf("hx: %v", err)
				}
				sym, ok := azref.Build(bits, spec, 3)
				if !ok {
					t.Skip("walk does not fit this size")
				}
				dm := rapid.SampledFrom([]string{"none", "some", "capacity"}).Draw(t, "damage")
				cs := Case{Tokens: toks, Compact: spec.Compact, Layers: spec.Layers, Level: "matrix", Damage: drawDamage(t, sym, dm)}
				cl, nt := classOf(spec, used, "damage="+dm)
				raw, _ := json.Marshal(cs)
				c.Note(sub, cl, nt || len(cs.Damage) > 0, hx.Hash(raw), func() any { return sample(cs) })
				if err := c.Eval("aztec", cs); err != nil {
					t.Fatalf("%v", err)
				}
			})
		}
		// (3) image level: located in all four orientations
		c.Rapid("image_level", c.N(120, 5000), func(t *rapid.T) {
			spec := specs[rapid.IntRange(0, len(specs)-1).Draw(t, "spec")]
			if !c.Thorough() && spec.Layers > 12 && rapid.IntRange(0, 3).Draw(t, "skipbig") != 0 {
				spec = specs[rapid.IntRange(0, 12).Draw(t, "smallspec")]
			}
			total := spec.TotalBits()
			target := total * rapid.IntRange(25, 80).Draw(t, "fill") / 100
			if spec.Compact && target > 64*spec.WordSize()*8/10 {
				target = 64 * spec.WordSize() * 8 / 10
			}
			toks, used := walk(t, target)
			bits, _, err := azref.Encode(toks)
			if err != nil {
				t.Fatalf("hx: %v", err)
			}
			sym, ok := azref.Build(bits, spec, 3)
			if !ok {
				t.Skip("walk does not fit this size")
			}
			cs := Case{Tokens: toks, Compact: spec.Compact, Layers: spec.Layers, Level: "image",
				Rot: rapid.IntRange(0, 3).Draw(t, "rot"), Scale: rapid.IntRange(2, 5).Draw(t, "scale"), Quiet: rapid.SampledFrom([]int{0, 0, 1, 2, 2, 3, 4, 6, 10}).Draw(t, "quiet")}
			if spec.Layers > 16 && cs.Scale > 3 {
				cs.Scale = 3
			}
			// the picture need not be square: further white to the left and right, or above and below,
			// up to the point where the bull's eye lies farther along the long side than the short side is long
			shape := rapid.SampledFrom([]string{"square", "square", "wide", "tall"}).Draw(t, "shape")
			if shape != "square" {
				pad := rapid.IntRange(1, sym.Size+2*cs.Quiet).Draw(t, "pad")
				if spec.Layers > 16 && pad > 40 {
					pad = 40
				}
				if shape == "wide" {
					cs.PadX = pad
				} else {
					cs.PadY = pad
				}
				if 2*pad > sym.Size+2*cs.Quiet {
					shape += "_centre_beyond_short_side"
				}
			}
			dm := rapid.SampledFrom([]string{"none", "none", "some", "capacity"}).Draw(t, "damage")
			cs.Damage = drawDamage(t, sym, dm)
			if rapid.Bool().Draw(t, "modedmg") {
				nn := 7
				if !spec.Compact {
					nn = 10
				}
				k := rapid.IntRange(1, 2).Draw(t, "nmode")
				seen := map[int]bool{}
				for len(cs.ModeDmg) < k {
					i := rapid.IntRange(0, nn-1).Draw(t, "nibble")
					if !seen[i] {
						seen[i] = true
						cs.ModeDmg = append(cs.ModeDmg, [2]int{i, rapid.IntRange(1, 15).Draw(t, "nx")})
					}
				}
			}
			cl, _ := classOf(spec, used, fmt.Sprintf("rot=%d;scale=%d;damage=%s;shape=%s", cs.Rot*90, cs.Scale, dm, shape))
			if img, e := rebuild(cs); e == nil {
				if dev := centreDeviation(img, cs.Scale); dev < 0 || dev >= 0.5 {
					// known finding aztec-centre-estimate: steer around it (counted), keep 1 in 10
					if rapid.IntRange(0, 9).Draw(t, "keep_known") != 0 {
						c.Exclude("aztec-centre-estimate: whole-image centre estimate >= 0.5 module off")
						t.Skip("excluded by construction")
					}
					cl += ";centre_estimate_off"
				}
			}
			raw, _ := json.Marshal(cs)
			c.Note("image_level", cl, true, hx.Hash(raw), func() any { return sample(cs) })
			if err := c.Eval("aztec", cs); err != nil {
				t.Fatalf("%v", err)
			}
		})
	})
}
