// C08: Data Matrix symbols conform to ISO/IEC 16022 ECC 200 (independent reference).
package c08

import (
	"bytes"
	"encoding/json"
	"fmt"
	"strings"
	"testing"

	"github.com/makiuchi-d/gozxing"
	"github.com/makiuchi-d/gozxing/datamatrix"
	dmdec "github.com/makiuchi-d/gozxing/datamatrix/decoder"
	"github.com/makiuchi-d/gozxing/datamatrix/encoder"
	"pgregory.net/rapid"

	"verif/internal/dmref"
	"verif/internal/dmx"
	"verif/internal/hx"
)

// VecCase: a data codeword vector of exactly the capacity of size index Size.
type VecCase struct {
	Size int    `json:"size"`
	Kind string `json:"kind"`
	Seed uint64 `json:"seed"`
}

func vector(c VecCase) []byte {
	a := dmref.Sizes[c.Size]
	out := make([]byte, a.Data)
	rng := hx.NewRng(c.Seed)
	switch c.Kind {
	case "zero":
	case "ff":
		for i := range out {
			out[i] = 0xFF
		}
	case "pad":
		out[0] = 129
		for i := 1; i < len(out); i++ {
			out[i] = byte(dmref.Randomize253(i + 1))
		}
	case "single":
		out[rng.Intn(len(out))] = byte(1 + rng.Intn(255))
	case "ramp":
		for i := range out {
			out[i] = byte(i*7 + 3)
		}
	default:
		for i := range out {
			out[i] = byte(rng.U64())
		}
	}
	return out
}

func checkVec(raw json.RawMessage) error {
	var c VecCase
	if err := json.Unmarshal(raw, &c); err != nil {
		return fmt.Errorf("hx: %v", err)
	}
	a := dmref.Sizes[c.Size]
	data := vector(c)
	si, err := dmx.LibSymbol(a)
	if err != nil {
		return fmt.Errorf("symbol %s not found by SymbolInfo_Lookup: %v", dmx.SizeName(a), err)
	}
	got, err := encoder.ErrorCorrection_EncodeECC200(append([]byte(nil), data...), si)
	if err != nil {
		return fmt.Errorf("ErrorCorrection_EncodeECC200 failed for %s: %v", dmx.SizeName(a), err)
	}
	want := dmref.ECC(data, a)
	if len(got) != len(want) {
		return fmt.Errorf("%s: %d codewords, standard %d", dmx.SizeName(a), len(got), len(want))
	}
	for i := range want {
		if got[i] != want[i] {
			where := "data"
			if i >= a.Data {
				where = fmt.Sprintf("parity position %d (block %d by the standard's interleaving)", i-a.Data, dmref.BlockOf(a)[i].Block)
			}
			return fmt.Errorf("%s (%d blocks): codeword %d = %d, reference %d [%s]", dmx.SizeName(a), a.Blocks, i, got[i], want[i], where)
		}
	}
	// placement of the full codeword sequence
	pl := encoder.NewDefaultPlacement(want, a.MapCols(), a.MapRows())
	pl.Place()
	mm := dmref.MappingMatrix(want, a.MapRows(), a.MapCols())
	for r := 0; r < a.MapRows(); r++ {
		for col := 0; col < a.MapCols(); col++ {
			if pl.GetBit(col, r) != mm[r][col] {
				return fmt.Errorf("%s: placement differs from Annex F at mapping row %d col %d: lib %v, reference %v", dmx.SizeName(a), r, col, pl.GetBit(col, r), mm[r][col])
			}
		}
	}
	return nil
}

// RefDecodeCase: a symbol built entirely by the reference construction (digit pairs as data
// codewords, reference parity, interleaving, placement, finder / clock borders) is given to the
// library's decoder: its version table, module read-out and block de-interleaving must agree with
// the standard for every size.
type RefDecodeCase struct {
	Size int    `json:"size"`
	Seed uint64 `json:"seed"`
}

func checkRefDecode(raw json.RawMessage) error {
	var c RefDecodeCase
	if err := json.Unmarshal(raw, &c); err != nil {
		return fmt.Errorf("hx: %v", err)
	}
	a := dmref.Sizes[c.Size]
	rng := hx.NewRng(c.Seed)
	data := make([]byte, a.Data)
	var sb strings.Builder
	for i := range data {
		v := rng.Intn(100)
		data[i] = byte(130 + v)
		fmt.Fprintf(&sb, "%02d", v)
	}
	cells := dmref.BuildSymbol(dmref.ECC(data, a), a)
	bm, _ := gozxing.NewBitMatrix(a.Cols, a.Rows)
	for y := range cells {
		for x := range cells[y] {
			if cells[y][x] {
				bm.Set(x, y)
			}
		}
	}
	res, err := dmdec.NewDecoder().Decode(bm)
	if err != nil {
		return fmt.Errorf("%s: the decoder rejects the reference symbol for %d digit pairs: %v", dmx.SizeName(a), a.Data, err)
	}
	if res.GetText() != sb.String() {
		return fmt.Errorf("%s: the decoder reads different text from the reference symbol", dmx.SizeName(a))
	}
	return nil
}

// TextCase: full writer output for a text forced into a symbol size.
type TextCase struct {
	Size int    `json:"size"`
	Text string `json:"text"`
}

func checkText(raw json.RawMessage) error {
	var c TextCase
	if err := json.Unmarshal(raw, &c); err != nil {
		return fmt.Errorf("hx: %v", err)
	}
	a := dmref.Sizes[c.Size]
	cw, err := encoder.EncodeHighLevel(c.Text, encoder.SymbolShapeHint_FORCE_NONE, dmx.Dim(a), dmx.Dim(a))
	if err != nil {
		return nil // the encodation refused this text for this size: not C08's concern
	}
	if len(cw) != a.Data {
		return fmt.Errorf("%s: EncodeHighLevel returned %d codewords for a symbol of %d", dmx.SizeName(a), len(cw), a.Data)
	}
	bm, err := datamatrix.NewDataMatrixWriter().Encode(c.Text, gozxing.BarcodeFormat_DATA_MATRIX, 0, 0, dmx.ForceHints(a))
	if err != nil {
		return fmt.Errorf("%s: writer failed although high-level encodation succeeded: %v", dmx.SizeName(a), err)
	}
	want := dmref.BuildSymbol(dmref.ECC(cw, a), a)
	if bm.GetWidth() != a.Cols || bm.GetHeight() != a.Rows {
		return fmt.Errorf("%s: writer output is %dx%d", dmx.SizeName(a), bm.GetHeight(), bm.GetWidth())
	}
	n, first := 0, ""
	for y := 0; y < a.Rows; y++ {
		for x := 0; x < a.Cols; x++ {
			if bm.Get(x, y) != want[y][x] {
				if n == 0 {
					first = fmt.Sprintf("first at row %d col %d: lib %v, reference %v", y, x, bm.Get(x, y), want[y][x])
				}
				n++
			}
		}
	}
	if n > 0 {
		return fmt.Errorf("%s: %d modules differ from the reference construction; %s", dmx.SizeName(a), n, first)
	}
	// padding observed in the high-level stream follows the 253-state rule
	seenPad := false
	for i, v := range cw {
		if !seenPad {
			if v == 129 && onlyPadsAfter(cw, i) {
				seenPad = true
			}
			continue
		}
		if int(v) != dmref.Randomize253(i+1) {
			return fmt.Errorf("%s: pad codeword at position %d is %d, 253-state rule gives %d", dmx.SizeName(a), i+1, v, dmref.Randomize253(i+1))
		}
	}
	return nil
}

func onlyPadsAfter(cw []byte, i int) bool {
	for j := i + 1; j < len(cw); j++ {
		if int(cw[j]) != dmref.Randomize253(j+1) {
			return false
		}
	}
	return true
}

// B256Case: Base-256 segment observed in a real high-level stream.
type B256Case struct {
	N    int    `json:"n"` // number of extended bytes
	Seed uint64 `json:"seed"`
	Pre  string `json:"pre"`
}

func checkB256(raw json.RawMessage) error {
	var c B256Case
	if err := json.Unmarshal(raw, &c); err != nil {
		return fmt.Errorf("hx: %v", err)
	}
	rng := hx.NewRng(c.Seed)
	var sb strings.Builder
	sb.WriteString(c.Pre)
	data := make([]byte, c.N)
	for i := range data {
		data[i] = byte(0x80 + rng.Intn(0x80))
		sb.WriteRune(rune(data[i]))
	}
	cw, err := encoder.EncodeHighLevel(sb.String(), encoder.SymbolShapeHint_FORCE_NONE, nil, nil)
	if err != nil {
		return nil
	}
	// find the Base-256 latch and un-randomise what follows
	for i, v := range cw {
		if v != 231 {
			continue
		}
		if i+1 >= len(cw) {
			return nil
		}
		p := i + 2 // 1-based position of the first length codeword
		l1 := dmref.Unrandomize255(int(cw[i+1]), p)
		var n, start int
		switch {
		case l1 == 0:
			n, start = len(cw)-(i+2), i+2
		case l1 < 250:
			n, start = l1, i+2
		default:
			if i+2 >= len(cw) {
				return fmt.Errorf("truncated two-byte Base-256 length")
			}
			n, start = 250*(l1-249)+dmref.Unrandomize255(int(cw[i+2]), p+1), i+3
		}
		if start+n > len(cw) {
			return fmt.Errorf("Base-256 length field %d at codeword %d overruns the %d-codeword symbol (text of %d extended bytes after %q)", n, i+1, len(cw), c.N, c.Pre)
		}
		// the segment must be a contiguous piece of the text's Latin-1 bytes
		full := append([]byte(c.Pre), data...)
		seg := make([]byte, n)
		for j := 0; j < n; j++ {
			seg[j] = byte(dmref.Unrandomize255(int(cw[start+j]), start+j+1))
		}
		if n > len(full) || !bytes.Contains(full, seg) {
			return fmt.Errorf("Base-256 segment (length field %d at codeword %d) un-randomises to % x, which is not a piece of the text % x (255-state rule)", n, i+1, seg, full)
		}
		return nil
	}
	return nil
}

// TableCase: table/formula checks addressed by name.
type TableCase struct {
	What string `json:"what"`
	I    int    `json:"i"`
}

func checkTable(raw json.RawMessage) error {
	var c TableCase
	if err := json.Unmarshal(raw, &c); err != nil {
		return fmt.Errorf("hx: %v", err)
	}
	switch c.What {
	case "factors":
		sets, tab := encoder.VerifFactors()
		want := []int{5, 7, 10, 11, 12, 14, 18, 20, 24, 28, 36, 42, 48, 56, 62, 68}
		if len(sets) != len(want) || len(tab) != len(want) {
			return fmt.Errorf("factor sets %v, standard parity lengths %v", sets, want)
		}
		i := c.I
		if sets[i] != want[i] {
			return fmt.Errorf("factor set %d is for %d parity codewords, standard %d", i, sets[i], want[i])
		}
		g := dmref.Generator(want[i]) // highest degree first, monic
		if len(tab[i]) != want[i] {
			return fmt.Errorf("factor table for %d has %d entries", want[i], len(tab[i]))
		}
		// library stores coefficients of x^0 .. x^(n-1)
		for k := 0; k < want[i]; k++ {
			if tab[i][k] != g[want[i]-k] {
				return fmt.Errorf("generator for %d parity codewords: coefficient of x^%d is %d, prod(x-2^i) gives %d", want[i], k, tab[i][k], g[want[i]-k])
			}
		}
	case "rand253":
		p := c.I
		if got := int(encoder.VerifRandomize253(p)); got != dmref.Randomize253(p) {
			return fmt.Errorf("pad randomisation at position %d: %d, Annex B %d", p, got, dmref.Randomize253(p))
		}
	case "rand255":
		p := c.I
		for v := 0; v < 256; v++ {
			if got := int(encoder.VerifRandomize255(byte(v), p)); got != dmref.Randomize255(v, p) {
				return fmt.Errorf("Base-256 randomisation of %d at position %d: %d, Annex B %d", v, p, got, dmref.Randomize255(v, p))
			}
		}
	case "size":
		a := dmref.Sizes[c.I]
		// encoder entry
		si, err := dmx.LibSymbol(a)
		if err != nil {
			return fmt.Errorf("encoder has no symbol %s: %v", dmx.SizeName(a), err)
		}
		if si.GetDataCapacity() != a.Data || si.GetErrorCodewords() != a.EC || si.GetSymbolWidth() != a.Cols || si.GetSymbolHeight() != a.Rows ||
			si.GetMatrixWidth() != a.RW || si.GetMatrixHeight() != a.RH || si.GetSymbolDataWidth() != a.MapCols() || si.GetSymbolDataHeight() != a.MapRows() ||
			si.GetInterleavedBlockCount() != a.Blocks || si.GetCodewordCount() != a.Data+a.EC {
			return fmt.Errorf("encoder symbol %s: data %d ec %d size %dx%d region %dx%d mapping %dx%d blocks %d; standard data %d ec %d region %dx%d mapping %dx%d blocks %d",
				dmx.SizeName(a), si.GetDataCapacity(), si.GetErrorCodewords(), si.GetSymbolHeight(), si.GetSymbolWidth(), si.GetMatrixHeight(), si.GetMatrixWidth(),
				si.GetSymbolDataHeight(), si.GetSymbolDataWidth(), si.GetInterleavedBlockCount(), a.Data, a.EC, a.RH, a.RW, a.MapRows(), a.MapCols(), a.Blocks)
		}
		for b := 0; b < a.Blocks; b++ {
			if si.GetDataLengthForInterleavedBlock(b+1) != a.BlockData(b) || si.GetErrorLengthForInterleavedBlock(b+1) != a.ECPerBlock() {
				return fmt.Errorf("encoder symbol %s block %d: data %d ec %d, standard %d / %d", dmx.SizeName(a), b+1,
					si.GetDataLengthForInterleavedBlock(b+1), si.GetErrorLengthForInterleavedBlock(b+1), a.BlockData(b), a.ECPerBlock())
			}
		}
		// decoder entry
		var dv *dmdec.VerifVersion
		vs := dmdec.VerifVersions()
		for i := range vs {
			if vs[i].Rows == a.Rows && vs[i].Cols == a.Cols {
				if dv != nil {
					return fmt.Errorf("decoder table lists %s twice", dmx.SizeName(a))
				}
				dv = &vs[i]
			}
		}
		if dv == nil {
			return fmt.Errorf("decoder table has no entry for %s", dmx.SizeName(a))
		}
		if dv.RegionRows != a.RH || dv.RegionCols != a.RW || dv.ECPerBlock != a.ECPerBlock() || dv.TotalCodewords != a.Data+a.EC {
			return fmt.Errorf("decoder entry %s: region %dx%d ec/block %d total %d; standard region %dx%d ec/block %d total %d", dmx.SizeName(a),
				dv.RegionRows, dv.RegionCols, dv.ECPerBlock, dv.TotalCodewords, a.RH, a.RW, a.ECPerBlock(), a.Data+a.EC)
		}
		// block groups: (count, data) with longer blocks first
		nb, nd := 0, 0
		var per []int
		for _, g := range dv.Blocks {
			nb += g[0]
			nd += g[0] * g[1]
			for k := 0; k < g[0]; k++ {
				per = append(per, g[1])
			}
		}
		if nb != a.Blocks || nd != a.Data {
			return fmt.Errorf("decoder entry %s: %d blocks with %d data codewords, standard %d / %d", dmx.SizeName(a), nb, nd, a.Blocks, a.Data)
		}
		for b := 0; b < a.Blocks; b++ {
			if per[b] != a.BlockData(b) {
				return fmt.Errorf("decoder entry %s: block %d has %d data codewords, standard %d", dmx.SizeName(a), b+1, per[b], a.BlockData(b))
			}
		}
	case "decoder_extra":
		// rows beyond the 30 ECC 200 sizes (DMRE) only need to be internally consistent
		vs := dmdec.VerifVersions()
		v := vs[c.I]
		if v.Rows%v.RegionRows == 0 || v.Cols%v.RegionCols == 0 {
			// (region + 2) must divide the symbol size
		}
		if v.Rows%(v.RegionRows+2) != 0 || v.Cols%(v.RegionCols+2) != 0 {
			return fmt.Errorf("decoder version %d (%dx%d): region %dx%d does not tile the symbol", v.Number, v.Rows, v.Cols, v.RegionRows, v.RegionCols)
		}
		cells := (v.Rows / (v.RegionRows + 2) * v.RegionRows) * (v.Cols / (v.RegionCols + 2) * v.RegionCols)
		if cells/8 != v.TotalCodewords {
			return fmt.Errorf("decoder version %d (%dx%d): %d mapping cells / 8 != %d codewords", v.Number, v.Rows, v.Cols, cells, v.TotalCodewords)
		}
	case "order":
		// encoder lookup order == the standard's capacity order
		syms := encoder.VerifSymbols()
		ord := dmref.CapacityOrder()
		if len(syms) != len(ord) {
			return fmt.Errorf("encoder symbol table has %d rows, standard 30", len(syms))
		}
		for i, k := range ord {
			a := dmref.Sizes[k]
			if syms[i][3] != a.Cols || syms[i][4] != a.Rows || syms[i][1] != a.Data {
				return fmt.Errorf("encoder symbol table row %d is %dx%d (%d data), capacity order has %s (%d data)", i, syms[i][4], syms[i][3], syms[i][1], dmx.SizeName(a), a.Data)
			}
		}
	default:
		return fmt.Errorf("hx: unknown table check %q", c.What)
	}
	return nil
}

func sizeClass(i int) string {
	a := dmref.Sizes[i]
	s := "size=" + dmx.SizeName(a)
	if a.RegH*a.RegV > 1 {
		s += ";multi_region"
	}
	if a.Blocks > 1 {
		s += ";multi_block"
	}
	_, corners := dmref.Placement(a.MapRows(), a.MapCols())
	for k := 1; k <= 4; k++ {
		if corners[k] {
			s += fmt.Sprintf(";corner%d", k)
		}
	}
	s += fmt.Sprintf(";parity=%d", a.ECPerBlock())
	return s
}

func TestCheck(t *testing.T) {
	hx.Main(t, "C08", func(c *hx.Ctx) {
		c.Register("vec", checkVec)
		c.Register("refdecode", checkRefDecode)
		c.Register("text", checkText)
		c.Register("b256", checkB256)
		c.Register("table", checkTable)
	}, func(c *hx.Ctx) {
		if i := dmref.SelfCheck(); i >= 0 {
			c.Inconclusive(fmt.Sprintf("reference attribute table row %d violates cells/8 == data+ec", i))
			return
		}
		// tables and formulae (exhaustive)
		idx := 0
		tb := func(sub string, tc TableCase) {
			idx++
			if c.Mine(idx) {
				c.NoteBulk(sub, "", 1, 1, func() any { return tc })
				c.Enum(sub, "table", tc, nil)
			}
		}
		for i := 0; i < 16; i++ {
			tb("factor_tables", TableCase{"factors", i})
		}
		c.SetExhaustive("factor_tables", true)
		for p := 1; p <= 1558; p++ {
			tb("randomisers", TableCase{"rand253", p})
			tb("randomisers", TableCase{"rand255", p})
		}
		c.SetExhaustive("randomisers", true)
		for i := range dmref.Sizes {
			tb("size_tables", TableCase{"size", i})
		}
		for i := range dmdec.VerifVersions() {
			if i >= 30 {
				tb("size_tables", TableCase{"decoder_extra", i})
			}
		}
		tb("size_tables", TableCase{"order", 0})
		c.SetExhaustive("size_tables", true)

		// codeword vectors for every size: ECC + placement
		kinds := []string{"random", "zero", "ff", "pad", "single", "ramp", "random", "random"}
		per := c.N(6, 200)
		idx = 0
		for si := range dmref.Sizes {
			for k := 0; k < per; k++ {
				idx++
				if !c.Mine(idx) {
					continue
				}
				cs := VecCase{Size: si, Kind: kinds[k%len(kinds)], Seed: c.Seed("vec", idx)}
				raw, _ := json.Marshal(cs)
				c.Note("vectors_all_sizes", sizeClass(si)+";kind="+cs.Kind, true, hx.Hash(raw), func() any { return cs })
				c.Enum("vectors_all_sizes", "vec", cs, nil)
			}
		}
		c.SetExhaustive("vectors_all_sizes", false)
		{
			idx := 0
			for si := range dmref.Sizes {
				for rep := 0; rep < c.N(2, 20); rep++ {
					idx++
					if !c.Mine(idx) {
						continue
					}
					cs := RefDecodeCase{Size: si, Seed: c.Seed("refdecode", idx)}
					c.Note("reference_symbols_decoded_all_sizes", sizeClass(si), true, hx.HashS("refdec", fmt.Sprint(si, cs.Seed)), func() any { return cs })
					c.Enum("reference_symbols_decoded_all_sizes", "refdecode", cs, nil)
				}
			}
			c.SetExhaustive("reference_symbols_decoded_all_sizes", false)
		}

		// full writer output for texts forced into every size
		c.Rapid("writer_texts", c.N(600, 30000), func(t *rapid.T) {
			si := rapid.IntRange(0, len(dmref.Sizes)-1).Draw(t, "size")
			a := dmref.Sizes[si]
			n := rapid.IntRange(1, 2*a.Data).Draw(t, "n")
			if rapid.Bool().Draw(t, "short") {
				n = rapid.IntRange(1, 6).Draw(t, "nshort")
			}
			rng := hx.NewRng(rapid.Uint64().Draw(t, "payload"))
			alpha := rapid.SampledFrom([]string{"0123456789", "ABCDEFGHIJKLMNOPQRSTUVWXYZ0123456789 ", "abcdefghijklmnopqrstuvwxyz ", "A1b2-;éÿ\u0080", "0123456789AB\r*>"}).Draw(t, "alphabet")
			rs := []rune(alpha)
			var sb strings.Builder
			for i := 0; i < n; i++ {
				sb.WriteRune(rs[rng.Intn(len(rs))])
			}
			cs := TextCase{Size: si, Text: sb.String()}
			raw, _ := json.Marshal(cs)
			c.Note("writer_texts", sizeClass(si), true, hx.Hash(raw), func() any { return cs })
			if err := c.Eval("text", cs); err != nil {
				t.Fatalf("%v", err)
			}
		})
		// 1-character text forced into each size (padding of every length)
		for si := range dmref.Sizes {
			if c.Mine(si) {
				cs := TextCase{Size: si, Text: "A"}
				raw, _ := json.Marshal(cs)
				c.Note("writer_padding_all_sizes", sizeClass(si), true, hx.Hash(raw), func() any { return cs })
				c.Enum("writer_padding_all_sizes", "text", cs, nil)
			}
		}
		c.SetExhaustive("writer_padding_all_sizes", true)

		// Base-256 segments in real streams
		c.Rapid("base256_streams", c.N(1500, 60000), func(t *rapid.T) {
			cs := B256Case{N: rapid.IntRange(1, 40).Draw(t, "n"), Seed: rapid.Uint64().Draw(t, "seed"), Pre: rapid.SampledFrom([]string{"", "A", "12", "ab1", "HELLO"}).Draw(t, "pre")}
			if rapid.IntRange(0, 5).Draw(t, "long") == 0 {
				cs.N = rapid.IntRange(200, 900).Draw(t, "nlong")
			}
			raw, _ := json.Marshal(cs)
			cl := "short_length"
			if cs.N >= 250 {
				cl = "two_byte_length"
			}
			c.Note("base256_streams", cl, true, hx.Hash(raw), func() any { return cs })
			if err := c.Eval("b256", cs); err != nil {
				t.Fatalf("%v", err)
			}
		})
	})
}
