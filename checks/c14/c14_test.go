// C14: rendering geometry: size, integer scaling, centring and quiet zone.
package c14

import (
	"encoding/json"
	"fmt"
	"image"
	"image/color"
	"strconv"
	"testing"

	"github.com/makiuchi-d/gozxing"
	"github.com/makiuchi-d/gozxing/datamatrix"
	"github.com/makiuchi-d/gozxing/qrcode"
	"github.com/makiuchi-d/gozxing/qrcode/decoder"
	"github.com/makiuchi-d/gozxing/qrcode/encoder"
	"pgregory.net/rapid"

	"verif/internal/hx"
	"verif/internal/onedx"
)

type Case struct {
	Writer  string `json:"writer"` // QR | DM | a 1-D symbology name
	Content string `json:"content"`
	ReqW    int    `json:"req_w"`
	ReqH    int    `json:"req_h"`
	Margin  int    `json:"margin"` // -1: no hint
	// StrMargin: the MARGIN hint is given as a decimal string, which the writers accept alike
	StrMargin bool `json:"margin_as_string,omitempty"`
	// ECLevel (QR only): 0 = no ERROR_CORRECTION hint, 1..4 = L M Q H given together with the other hints
	ECLevel int `json:"ec_level,omitempty"`
	// NoHintAPI: no hints at all, and the call goes through Writer.EncodeWithoutHint
	NoHintAPI bool `json:"encode_without_hint,omitempty"`
}

func marginHint(c Case) interface{} {
	if c.StrMargin {
		return strconv.Itoa(c.Margin)
	}
	return c.Margin
}

// expected builds the image the property's formula prescribes from the module matrix.
func expected(mod [][]bool, outW, outH, s, padX, padY int, fullHeight bool) [][]bool {
	img := make([][]bool, outH)
	for y := range img {
		img[y] = make([]bool, outW)
	}
	nh, nw := len(mod), len(mod[0])
	for y := 0; y < outH; y++ {
		for x := 0; x < outW; x++ {
			mx := (x - padX)
			my := (y - padY)
			if mx < 0 || mx >= nw*s {
				continue
			}
			if fullHeight {
				img[y][x] = mod[0][mx/s]
				continue
			}
			if my < 0 || my >= nh*s {
				continue
			}
			img[y][x] = mod[my/s][mx/s]
		}
	}
	return img
}

func compare(bm *gozxing.BitMatrix, want [][]bool, desc string) error {
	if bm.GetHeight() != len(want) || bm.GetWidth() != len(want[0]) {
		return fmt.Errorf("image is %dx%d, formula gives %dx%d [%s]", bm.GetWidth(), bm.GetHeight(), len(want[0]), len(want), desc)
	}
	for y := range want {
		for x := range want[y] {
			if bm.Get(x, y) != want[y][x] {
				return fmt.Errorf("pixel (%d,%d) is %v, formula gives %v [%s]", x, y, bm.Get(x, y), want[y][x], desc)
			}
		}
	}
	return nil
}

func max(a, b int) int {
	if a > b {
		return a
	}
	return b
}

func min(a, b int) int {
	if a < b {
		return a
	}
	return b
}

func check(raw json.RawMessage) error {
	var c Case
	if err := json.Unmarshal(raw, &c); err != nil {
		return fmt.Errorf("hx: %v", err)
	}
	desc := fmt.Sprintf("%s content=%q requested %dx%d margin=%d", c.Writer, c.Content, c.ReqW, c.ReqH, c.Margin)
	switch c.Writer {
	case "QR":
		hints := map[gozxing.EncodeHintType]interface{}{}
		margin := 4
		if c.Margin >= 0 {
			hints[gozxing.EncodeHintType_MARGIN] = marginHint(c)
			margin = c.Margin
		}
		level := decoder.ErrorCorrectionLevel_L
		if c.ECLevel >= 1 && c.ECLevel <= 4 {
			level = []decoder.ErrorCorrectionLevel{decoder.ErrorCorrectionLevel_L, decoder.ErrorCorrectionLevel_M, decoder.ErrorCorrectionLevel_Q, decoder.ErrorCorrectionLevel_H}[c.ECLevel-1]
			hints[gozxing.EncodeHintType_ERROR_CORRECTION] = level
			desc += fmt.Sprintf(" ec=%v", level)
		}
		code, err := encoder.Encoder_encode(c.Content, level, hints)
		if err != nil {
			return fmt.Errorf("hx: %v", err)
		}
		m := code.GetMatrix()
		n := m.GetWidth()
		mod := make([][]bool, n)
		for y := range mod {
			mod[y] = make([]bool, n)
			for x := range mod[y] {
				mod[y][x] = m.Get(x, y) == 1
			}
		}
		var bm *gozxing.BitMatrix
		var err2 error
		if c.NoHintAPI && len(hints) == 0 {
			bm, err2 = qrcode.NewQRCodeWriter().EncodeWithoutHint(c.Content, gozxing.BarcodeFormat_QR_CODE, c.ReqW, c.ReqH)
		} else {
			bm, err2 = qrcode.NewQRCodeWriter().Encode(c.Content, gozxing.BarcodeFormat_QR_CODE, c.ReqW, c.ReqH, hints)
		}
		if err2 != nil {
			return fmt.Errorf("writer failed: %v [%s]", err2, desc)
		}
		q := 2 * margin
		outW, outH := max(c.ReqW, n+q), max(c.ReqH, n+q)
		s := min(outW/(n+q), outH/(n+q))
		want := expected(mod, outW, outH, s, (outW-n*s)/2, (outH-n*s)/2, false)
		if err := compare(bm, want, desc); err != nil {
			return err
		}
		// at least the configured quiet zone on every side; block centres give back the matrix
		px, py := (outW-n*s)/2, (outH-n*s)/2
		if px < margin*s || py < margin*s || outW-px-n*s < margin*s || outH-py-n*s < margin*s {
			return fmt.Errorf("quiet zone smaller than %d modules [%s]", margin, desc)
		}
		for y := 0; y < n; y++ {
			for x := 0; x < n; x++ {
				if bm.Get(px+x*s+s/2, py+y*s+s/2) != mod[y][x] {
					return fmt.Errorf("centre of module block (%d,%d) differs from the module matrix [%s]", x, y, desc)
				}
			}
		}
		return checkImageView(bm)
	case "DM":
		w := datamatrix.NewDataMatrixWriter()
		bare, err := w.Encode(c.Content, gozxing.BarcodeFormat_DATA_MATRIX, 0, 0, nil)
		if err != nil {
			return fmt.Errorf("hx: %v", err)
		}
		nw, nh := bare.GetWidth(), bare.GetHeight()
		mod := make([][]bool, nh)
		for y := range mod {
			mod[y] = make([]bool, nw)
			for x := range mod[y] {
				mod[y][x] = bare.Get(x, y)
			}
		}
		var bm *gozxing.BitMatrix
		if c.NoHintAPI {
			bm, err = w.EncodeWithoutHint(c.Content, gozxing.BarcodeFormat_DATA_MATRIX, c.ReqW, c.ReqH)
		} else {
			bm, err = w.Encode(c.Content, gozxing.BarcodeFormat_DATA_MATRIX, c.ReqW, c.ReqH, nil)
		}
		if err != nil {
			return fmt.Errorf("writer failed: %v [%s]", err, desc)
		}
		var want [][]bool
		if c.ReqW >= nw && c.ReqH >= nh {
			s := min(c.ReqW/nw, c.ReqH/nh)
			want = expected(mod, c.ReqW, c.ReqH, s, (c.ReqW-nw*s)/2, (c.ReqH-nh*s)/2, false)
		} else {
			want = expected(mod, nw, nh, 1, 0, 0, false)
		}
		if err := compare(bm, want, desc); err != nil {
			return err
		}
		return checkImageView(bm)
	}
	sym := onedx.SymByName(c.Writer)
	if sym == nil {
		return fmt.Errorf("hx: writer %q", c.Writer)
	}
	w := sym.Writer()
	bare, err := w.Encode(c.Content, sym.Format, 0, 0, map[gozxing.EncodeHintType]interface{}{gozxing.EncodeHintType_MARGIN: 0})
	if err != nil {
		return fmt.Errorf("hx: %v", err)
	}
	n := bare.GetWidth()
	mod := [][]bool{make([]bool, n)}
	for x := 0; x < n; x++ {
		mod[0][x] = bare.Get(x, 0)
	}
	if !mod[0][0] || !mod[0][n-1] {
		return fmt.Errorf("margin-0 rendering does not start and end with a bar [%s]", desc)
	}
	hints := map[gozxing.EncodeHintType]interface{}{}
	q := sym.DefaultMargin
	if c.Margin >= 0 {
		hints[gozxing.EncodeHintType_MARGIN] = marginHint(c)
		q = c.Margin
	}
	var bm *gozxing.BitMatrix
	if c.NoHintAPI && len(hints) == 0 {
		bm, err = w.EncodeWithoutHint(c.Content, sym.Format, c.ReqW, c.ReqH)
	} else {
		bm, err = w.Encode(c.Content, sym.Format, c.ReqW, c.ReqH, hints)
	}
	if err != nil {
		return fmt.Errorf("writer failed: %v [%s]", err, desc)
	}
	outW, outH := max(c.ReqW, n+q), max(1, c.ReqH)
	s := outW / (n + q)
	want := expected(mod, outW, outH, s, (outW-n*s)/2, 0, true)
	if err := compare(bm, want, desc); err != nil {
		return err
	}
	if outW-n*s < q*s {
		return fmt.Errorf("quiet zone smaller than %d modules in total [%s]", q, desc)
	}
	return checkImageView(bm)
}

// checkImageView: BitMatrix as image.Image.
func checkImageView(bm *gozxing.BitMatrix) error {
	var img image.Image = bm
	if img.Bounds() != image.Rect(0, 0, bm.GetWidth(), bm.GetHeight()) {
		return fmt.Errorf("Bounds()=%v for a %dx%d matrix", img.Bounds(), bm.GetWidth(), bm.GetHeight())
	}
	if img.ColorModel() != color.GrayModel {
		return fmt.Errorf("ColorModel is not GrayModel")
	}
	w, h := bm.GetWidth(), bm.GetHeight()
	for _, p := range [][2]int{{0, 0}, {w - 1, h - 1}, {w / 2, h / 2}, {w / 3, 0}, {-1, 0}, {0, -1}, {w, 0}, {0, h}, {w / 2, h / 3}} {
		want := color.Gray{255}
		if bm.Get(p[0], p[1]) {
			want = color.Gray{0}
		}
		if img.At(p[0], p[1]) != color.Color(want) {
			return fmt.Errorf("At(%d,%d)=%v for bit %v", p[0], p[1], img.At(p[0], p[1]), bm.Get(p[0], p[1]))
		}
	}
	return nil
}

func natural(writer, content string, margin int) (int, int) {
	switch writer {
	case "QR":
		code, err := encoder.Encoder_encode(content, decoder.ErrorCorrectionLevel_L, nil)
		if err != nil {
			return 0, 0
		}
		if margin < 0 {
			margin = 4
		}
		n := code.GetMatrix().GetWidth() + 2*margin
		return n, n
	case "DM":
		bm, err := datamatrix.NewDataMatrixWriter().Encode(content, gozxing.BarcodeFormat_DATA_MATRIX, 0, 0, nil)
		if err != nil {
			return 0, 0
		}
		return bm.GetWidth(), bm.GetHeight()
	}
	sym := onedx.SymByName(writer)
	h := map[gozxing.EncodeHintType]interface{}{}
	if margin >= 0 {
		h[gozxing.EncodeHintType_MARGIN] = margin
	}
	bm, err := sym.Writer().Encode(content, sym.Format, 0, 0, h)
	if err != nil {
		return 0, 0
	}
	return bm.GetWidth(), 1
}

var writers = []string{"QR", "DM", "EAN13", "EAN8", "UPCA", "UPCE", "ITF", "CODE39", "CODE93", "CODE128", "CODABAR"}

func contentFor(w string, rng *hx.Rng) string {
	switch w {
	case "QR":
		return []string{"A", "HELLO WORLD", "0123456789012345678901234567890123456789", "http://example.com/a/b?c=d&e=f", "x"}[rng.Intn(5)]
	case "DM":
		return []string{"A", "12", "HELLO WORLD 1234", "abcdefghijklmnopqrstuvwxyz0123456789", "123456789012345678901234567890"}[rng.Intn(5)]
	}
	s, _, _ := onedx.Content(w, rng)
	if len(s) > 12 && w != "ITF" {
		s = s[:12]
	}
	if w == "CODABAR" {
		s = "A12-34$B"
	}
	return s
}

func classOf(c Case, nw, nh int) (string, bool) {
	cl := "writer=" + c.Writer
	nt := false
	if c.ReqW > nw || c.ReqH > nh {
		nt = true
		cl += ";larger_request"
		if nw > 0 && c.ReqW >= 2*nw && (c.Writer != "QR" && c.Writer != "DM" || c.ReqH >= 2*nh) {
			cl += ";scale>=2"
		}
		if nw > 0 && (c.ReqW%nw)%2 == 1 {
			cl += ";odd_leftover"
		}
	}
	if c.Margin >= 0 {
		nt = true
		cl += ";margin_hint"
		if c.Margin == 0 {
			cl += ";zero_margin"
		}
	}
	if c.ReqW != c.ReqH && c.ReqW > 0 && c.ReqH > 0 {
		cl += ";non_square_request"
	}
	return cl, nt
}

func TestCheck(t *testing.T) {
	hx.Main(t, "C14", func(c *hx.Ctx) {
		c.Register("render", check)
	}, func(c *hx.Ctx) {
		// small ranges exhaustively: requested width 0..natural+3 (and the same for height where it matters)
		idx := 0
		for wi, w := range writers {
			rng := hx.NewRng(c.Seed("small", wi))
			content := contentFor(w, rng)
			margins := []int{-1, 0, 1, 3, 7, 20}
			if w == "DM" {
				margins = []int{-1}
			}
			for _, mg := range margins {
				nw, nh := natural(w, content, mg)
				for rw := 0; rw <= nw+3; rw++ {
					hs := []int{0, rw, nh + 1, 2*nh + 1}
					if c.Thorough() && (w == "QR" || w == "DM") {
						hs = nil
						for rh := 0; rh <= nh+3; rh++ {
							hs = append(hs, rh)
						}
					}
					for _, rh := range hs {
						idx++
						if !c.Mine(idx) {
							continue
						}
						cs := Case{Writer: w, Content: content, ReqW: rw, ReqH: rh, Margin: mg}
						cl, nt := classOf(cs, nw, nh)
						c.Note("small_ranges_exhaustive", cl, nt, hx.HashS(w, content, fmt.Sprint(rw, rh, mg)), func() any { return cs })
						if !c.Enum("small_ranges_exhaustive", "render", cs, nil) {
							break
						}
					}
				}
			}
		}
		c.SetExhaustive("small_ranges_exhaustive", true)

		// rapid: up to 8x natural, any margin 0..20
		c.Rapid("random", c.N(1500, 60000), func(t *rapid.T) {
			w := rapid.SampledFrom(writers).Draw(t, "writer")
			rng := hx.NewRng(rapid.Uint64().Draw(t, "content"))
			cs := Case{Writer: w, Content: contentFor(w, rng), Margin: -1}
			if w != "DM" && rapid.Bool().Draw(t, "hasmargin") {
				cs.Margin = rapid.IntRange(0, 20).Draw(t, "margin")
				cs.StrMargin = rapid.IntRange(0, 3).Draw(t, "strmargin") == 0
			}
			if w == "QR" && rapid.Bool().Draw(t, "withec") {
				cs.ECLevel = rapid.IntRange(1, 4).Draw(t, "ec")
			}
			if cs.Margin < 0 && cs.ECLevel == 0 && rapid.Bool().Draw(t, "nohintapi") {
				cs.NoHintAPI = true
			}
			nw, nh := natural(w, cs.Content, cs.Margin)
			if nw == 0 {
				t.Skip("content refused")
			}
			lim := 8
			if w == "QR" || w == "DM" {
				lim = 4
			}
			switch rapid.IntRange(0, 3).Draw(t, "kind") {
			case 0:
				cs.ReqW, cs.ReqH = rapid.IntRange(0, lim*nw).Draw(t, "w"), rapid.IntRange(0, lim*max(nh, 10)).Draw(t, "h")
			case 1:
				k := rapid.IntRange(1, lim).Draw(t, "k")
				cs.ReqW, cs.ReqH = k*nw+rapid.IntRange(-1, 2).Draw(t, "dw"), k*nh+rapid.IntRange(-1, 2).Draw(t, "dh")
				if cs.ReqW < 0 {
					cs.ReqW = 0
				}
				if cs.ReqH < 0 {
					cs.ReqH = 0
				}
			case 2:
				cs.ReqW = rapid.IntRange(0, lim*nw).Draw(t, "w")
				cs.ReqH = cs.ReqW
			default:
				cs.ReqW, cs.ReqH = rapid.IntRange(0, nw).Draw(t, "w"), rapid.IntRange(0, 3*max(nh, 10)).Draw(t, "h")
			}
			cl, nt := classOf(cs, nw, nh)
			raw, _ := json.Marshal(cs)
			c.Note("random", cl, nt, hx.Hash(raw), func() any { return cs })
			if err := c.Eval("render", cs); err != nil {
				t.Fatalf("%v", err)
			}
		})
	})
}
