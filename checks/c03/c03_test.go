// C03: 1-D symbologies: written barcode reads back as the same content and format.
package c03

import (
	"encoding/json"
	"fmt"
	"strings"
	"testing"

	"github.com/makiuchi-d/gozxing"
	"github.com/makiuchi-d/gozxing/oned"
	"pgregory.net/rapid"

	"verif/internal/hx"
	"verif/internal/onedref"
	"verif/internal/onedx"
)

type Case struct {
	Sym       string `json:"sym"`
	Content   string `json:"content"`
	Canonical string `json:"canonical"`
	ReqW      int    `json:"req_w"`
	ReqH      int    `json:"req_h"`
	Margin    int    `json:"margin"` // -1: no hint
	ForceSet  string `json:"force_code_set,omitempty"`
	Multi     string `json:"multi,omitempty"` // "", "hinted", "unhinted": also read through the multi-format UPC/EAN reader
	// NoHintAPI: written through Writer.EncodeWithoutHint and read through Reader.DecodeWithoutHints
	NoHintAPI bool `json:"without_hint_api,omitempty"`
}

func encode(c Case) (*gozxing.BitMatrix, error) {
	s := onedx.SymByName(c.Sym)
	if s == nil {
		return nil, fmt.Errorf("hx: unknown symbology %q", c.Sym)
	}
	hints := map[gozxing.EncodeHintType]interface{}{}
	if c.Margin >= 0 {
		hints[gozxing.EncodeHintType_MARGIN] = c.Margin
	}
	if c.ForceSet != "" {
		hints[gozxing.EncodeHintType_FORCE_CODE_SET] = c.ForceSet
	}
	if c.NoHintAPI && len(hints) == 0 {
		return s.Writer().EncodeWithoutHint(c.Content, s.Format, c.ReqW, c.ReqH)
	}
	return s.Writer().Encode(c.Content, s.Format, c.ReqW, c.ReqH, hints)
}

func check(raw json.RawMessage) error {
	var c Case
	if err := json.Unmarshal(raw, &c); err != nil {
		return fmt.Errorf("hx: %v", err)
	}
	s := onedx.SymByName(c.Sym)
	if s == nil {
		return fmt.Errorf("hx: unknown symbology %q", c.Sym)
	}
	desc := fmt.Sprintf("%s content=%q requested %dx%d margin=%d codeset=%q", c.Sym, c.Content, c.ReqW, c.ReqH, c.Margin, c.ForceSet)
	bm, err := encode(c)
	if err != nil {
		return fmt.Errorf("writer refused accepted content: %v [%s]", err, desc)
	}
	bmp, err := gozxing.NewBinaryBitmapFromImage(bm)
	if err != nil {
		return fmt.Errorf("hx: bitmap: %v", err)
	}
	var res *gozxing.Result
	if c.NoHintAPI {
		res, err = s.Reader().DecodeWithoutHints(bmp)
	} else {
		res, err = s.Reader().Decode(bmp, nil)
	}
	if err != nil {
		return fmt.Errorf("matching reader failed on the %dx%d image: %v [%s]", bm.GetWidth(), bm.GetHeight(), err, desc)
	}
	if res.GetText() != c.Canonical {
		return fmt.Errorf("read %q, expected %q [%s]", res.GetText(), c.Canonical, desc)
	}
	if res.GetBarcodeFormat() != s.Format {
		return fmt.Errorf("read format %v, expected %v [%s]", res.GetBarcodeFormat(), s.Format, desc)
	}
	if c.Multi != "" && s.UPCEAN {
		var hints map[gozxing.DecodeHintType]interface{}
		if c.Multi == "hinted" {
			hints = map[gozxing.DecodeHintType]interface{}{gozxing.DecodeHintType_POSSIBLE_FORMATS: []gozxing.BarcodeFormat{s.Format}}
		}
		if strings.HasPrefix(c.Multi, "all:") {
			// every UPC/EAN format allowed, in the given order (digits index into the list below)
			all := []gozxing.BarcodeFormat{gozxing.BarcodeFormat_EAN_13, gozxing.BarcodeFormat_EAN_8, gozxing.BarcodeFormat_UPC_A, gozxing.BarcodeFormat_UPC_E}
			var fs []gozxing.BarcodeFormat
			for _, d := range c.Multi[4:] {
				fs = append(fs, all[int(d-'0')%4])
			}
			hints = map[gozxing.DecodeHintType]interface{}{gozxing.DecodeHintType_POSSIBLE_FORMATS: fs}
		}
		bmp2, _ := gozxing.NewBinaryBitmapFromImage(bm)
		r2, err := oned.NewMultiFormatUPCEANReader(hints).Decode(bmp2, hints)
		if err != nil {
			return fmt.Errorf("multi-format UPC/EAN reader (%s) failed: %v [%s]", c.Multi, err, desc)
		}
		got, gf := r2.GetText(), r2.GetBarcodeFormat()
		ok := got == c.Canonical && gf == s.Format
		if !ok && c.Multi != "hinted" {
			// EAN-13 with a leading 0 and UPC-A are the same symbol
			if s.Format == gozxing.BarcodeFormat_EAN_13 && strings.HasPrefix(c.Canonical, "0") && gf == gozxing.BarcodeFormat_UPC_A && got == c.Canonical[1:] {
				ok = true
			}
			if s.Format == gozxing.BarcodeFormat_UPC_A && gf == gozxing.BarcodeFormat_EAN_13 && got == "0"+c.Canonical {
				ok = true
			}
		}
		if !ok {
			return fmt.Errorf("multi-format UPC/EAN reader (%s) read %q as %v, expected %q as %v [%s]", c.Multi, got, gf, c.Canonical, s.Format, desc)
		}
	}
	return nil
}

// History: several write/read round trips through ONE writer and ONE reader instance,
// interleaved with reads that fail (blank image, symbol cut short, another symbology).
// Every well-formed step must give what a fresh reader gives.
type HStep struct {
	Case  Case   `json:"case"`
	Noise string `json:"noise,omitempty"` // "", blank, cut, foreign: read this before the step's own image
}
type History struct {
	Sym   string  `json:"sym"`
	Steps []HStep `json:"steps"`
}

func checkHistory(raw json.RawMessage) error {
	var h History
	if err := json.Unmarshal(raw, &h); err != nil {
		return fmt.Errorf("hx: %v", err)
	}
	s := onedx.SymByName(h.Sym)
	if s == nil {
		return fmt.Errorf("hx: unknown symbology %q", h.Sym)
	}
	w, r := s.Writer(), s.Reader()
	for i, st := range h.Steps {
		c := st.Case
		desc := fmt.Sprintf("step %d of %d on one %s writer/reader: content=%q requested %dx%d margin=%d after noise %q", i+1, len(h.Steps), h.Sym, c.Content, c.ReqW, c.ReqH, c.Margin, st.Noise)
		hints := map[gozxing.EncodeHintType]interface{}{}
		if c.Margin >= 0 {
			hints[gozxing.EncodeHintType_MARGIN] = c.Margin
		}
		bm, err := w.Encode(c.Content, s.Format, c.ReqW, c.ReqH, hints)
		if err != nil {
			return fmt.Errorf("writer refused accepted content: %v [%s]", err, desc)
		}
		fresh, err := encode(c)
		if err != nil {
			return fmt.Errorf("hx: fresh writer refused: %v", err)
		}
		if bm.GetWidth() != fresh.GetWidth() || bm.GetHeight() != fresh.GetHeight() || bm.String() != fresh.String() {
			return fmt.Errorf("the reused writer produced a different %dx%d image than a fresh writer (%dx%d) [%s]", bm.GetWidth(), bm.GetHeight(), fresh.GetWidth(), fresh.GetHeight(), desc)
		}
		if st.Noise != "" {
			var nz *gozxing.BitMatrix
			switch st.Noise {
			case "blank":
				nz, _ = gozxing.NewBitMatrix(bm.GetWidth(), bm.GetHeight())
			case "cut":
				nz, _ = gozxing.NewBitMatrix(bm.GetWidth(), bm.GetHeight())
				for y := 0; y < bm.GetHeight(); y++ {
					for x := 0; x < bm.GetWidth()*2/3; x++ {
						if bm.Get(x, y) {
							nz.Set(x, y)
						}
					}
				}
			default:
				other := "CODE128"
				if h.Sym == "CODE128" {
					other = "CODE39"
				}
				nz, _ = encode(Case{Sym: other, Content: "1234", Margin: -1, ReqH: 5})
			}
			if nz != nil {
				nb, _ := gozxing.NewBinaryBitmapFromImage(nz)
				r.Decode(nb, nil) // outcome irrelevant; it must not influence the next read
			}
		}
		bmp, _ := gozxing.NewBinaryBitmapFromImage(bm)
		res, err := r.Decode(bmp, nil)
		if err != nil {
			return fmt.Errorf("reused reader failed on the %dx%d image: %v [%s]", bm.GetWidth(), bm.GetHeight(), err, desc)
		}
		if res.GetText() != c.Canonical || res.GetBarcodeFormat() != s.Format {
			return fmt.Errorf("reused reader read %q (%v), expected %q [%s]", res.GetText(), res.GetBarcodeFormat(), c.Canonical, desc)
		}
	}
	return nil
}

// checkForced: Code 128 with a forced code set and every character value: the writer either refuses
// the content (what it does for characters the forced set cannot express: set A 0..95, set B 32..127,
// set C digit pairs) or the symbol it returns reads back as exactly that content. Demanding the
// refusal itself would be more than the property states.
func checkForced(raw json.RawMessage) error {
	var c Case
	if err := json.Unmarshal(raw, &c); err != nil {
		return fmt.Errorf("hx: %v", err)
	}
	inside := true
	digits := 0
	for _, r := range c.Content {
		switch c.ForceSet {
		case "A":
			inside = inside && r <= 95
		case "B":
			inside = inside && r >= 32 && r <= 127
		default:
			inside = inside && r >= '0' && r <= '9'
			digits++
		}
	}
	if c.ForceSet == "C" && digits%2 == 1 {
		inside = false
	}
	_, err := encode(c)
	if err != nil {
		// refusing is always acceptable here: outside the set's repertoire it is what the reference
		// implementation does, inside it the writer is merely stricter than the standard
		return nil
	}
	_ = inside
	// whatever the writer accepts must read back exactly
	return check(raw)
}

// RejectCase: malformed content that the writer must refuse.
type RejectCase struct {
	Sym     string `json:"sym"`
	Content string `json:"content"`
	Why     string `json:"why"`
}

func checkReject(raw json.RawMessage) error {
	var c RejectCase
	if err := json.Unmarshal(raw, &c); err != nil {
		return fmt.Errorf("hx: %v", err)
	}
	bm, err := encode(Case{Sym: c.Sym, Content: c.Content, Margin: -1})
	if err == nil {
		return fmt.Errorf("%s writer accepted malformed content %q (%s) and returned a %dx%d image", c.Sym, c.Content, c.Why, bm.GetWidth(), bm.GetHeight())
	}
	return nil
}

func naturalWidth(c Case) int {
	bm, err := encode(Case{Sym: c.Sym, Content: c.Content, Margin: c.Margin, ForceSet: c.ForceSet})
	if err != nil {
		return 100
	}
	return bm.GetWidth()
}

func geometry(t *rapid.T, c *Case, s *onedx.Sym) string {
	cl := "natural"
	switch rapid.IntRange(0, 3).Draw(t, "geo") {
	case 0:
		c.Margin = -1
		c.ReqH = rapid.SampledFrom([]int{0, 1, 30}).Draw(t, "h0")
	case 1:
		c.Margin = -1
		nat := naturalWidth(*c)
		c.ReqW = rapid.IntRange(0, 8*nat).Draw(t, "w")
		c.ReqH = rapid.IntRange(0, 80).Draw(t, "h")
		if c.ReqW > nat {
			cl = "scaled"
		}
	case 2:
		c.Margin = rapid.IntRange(s.DefaultMargin, 40).Draw(t, "margin")
		c.ReqH = rapid.IntRange(0, 80).Draw(t, "h")
		cl = "margin_hint"
	default:
		c.Margin = rapid.IntRange(s.DefaultMargin, 40).Draw(t, "margin")
		nat := naturalWidth(*c)
		c.ReqW = rapid.IntRange(0, 4*nat).Draw(t, "w")
		c.ReqH = rapid.IntRange(0, 80).Draw(t, "h")
		cl = "margin_hint;scaled"
	}
	return cl
}

// upceTrailingQuiet reports whether the rendered UPC-E image leaves the reader
// no more than the 6-module end pattern's width of white after the symbol
// (known finding: the UPC-E reader demands more than the default margin gives).
func upceTrailingQuiet(c Case) bool {
	if c.Sym != "UPCE" {
		return false
	}
	margin := c.Margin
	if margin < 0 {
		margin = 9
	}
	const n = 51
	full := n + margin
	out := c.ReqW
	if out < full {
		out = full
	}
	m := out / full
	left := (out - n*m) / 2
	right := out - left - n*m
	return right <= 6*m
}

// allOrders lists the 24 orders of the four UPC/EAN formats (digits index EAN-13, EAN-8, UPC-A, UPC-E).
func allOrders() []string {
	var out []string
	var rec func(cur string)
	rec = func(cur string) {
		if len(cur) == 4 {
			out = append(out, cur)
			return
		}
		for _, d := range "0123" {
			if !strings.ContainsRune(cur, d) {
				rec(cur + string(d))
			}
		}
	}
	rec("")
	return out
}

func TestCheck(t *testing.T) {
	hx.Main(t, "C03", func(c *hx.Ctx) {
		c.Register("oned_roundtrip", check)
		c.Register("oned_reject", checkReject)
		c.Register("oned_forced", checkForced)
		c.Register("oned_overlong", func(raw json.RawMessage) error {
			// longer than the 80 characters the property names: refused, or read back exactly
			var cs Case
			if err := json.Unmarshal(raw, &cs); err != nil {
				return fmt.Errorf("hx: %v", err)
			}
			if _, err := encode(cs); err != nil {
				return nil
			}
			return check(raw)
		})
		c.Register("oned_history", checkHistory)
		c.RegisterMatcher("upce-trailing-quiet-zone", func(raw json.RawMessage, err error) bool {
			var cs Case
			if json.Unmarshal(raw, &cs) != nil {
				return false
			}
			return upceTrailingQuiet(cs) && strings.Contains(err.Error(), "reader") && strings.Contains(err.Error(), "NotFoundException")
		})
	}, func(c *hx.Ctx) {
		for si := range onedx.Syms {
			s := &onedx.Syms[si]
			sub := "roundtrip_" + s.Name
			c.RapidIdx(sub, si, c.N(400, 5000), 0, func(t *rapid.T) {
				rng := hx.NewRng(rapid.Uint64().Draw(t, "content"))
				content, canon, cl := onedx.Content(s.Name, rng)
				cs := Case{Sym: s.Name, Content: content, Canonical: canon, Margin: -1}
				cl += ";" + geometry(t, &cs, s)
				if cs.Margin < 0 && rapid.IntRange(0, 3).Draw(t, "nohintapi") == 0 {
					cs.NoHintAPI = true
					cl += ";without_hint_api"
				}
				if upceTrailingQuiet(cs) && rapid.IntRange(0, 19).Draw(t, "keep_known") != 0 {
					// steer around the known finding (counted), keep 1 in 20
					c.Exclude("upce-trailing-quiet-zone: margin raised to 13")
					cs.Margin = 13
					if upceTrailingQuiet(cs) {
						cs.ReqW = 0
					}
				}
				if s.UPCEAN {
					cs.Multi = rapid.SampledFrom([]string{"", "hinted", "unhinted", "all"}).Draw(t, "multi")
					if cs.Multi == "all" {
						perm := rapid.SampledFrom(allOrders()).Draw(t, "order")
						cs.Multi = "all:" + perm
					}
					if cs.Multi != "" {
						cl += ";multi_" + strings.SplitN(cs.Multi, ":", 2)[0]
					}
				}
				raw, _ := json.Marshal(cs)
				c.Note(sub, cl, true, hx.Hash(raw), func() any { return cs })
				if err := c.Eval("oned_roundtrip", cs); err != nil {
					t.Fatalf("%v", err)
				}
			})
		}
		// UPC-A numbers built so that the EAN-8 reader, which searches its guards forward, finds a
		// checksum-valid EAN-8 inside them (digits 1-4 and 7-10): every order and every subset of
		// POSSIBLE_FORMATS that contains the true format must still give the UPC-A number
		{
			rng := hx.NewRng(c.Seed("confusable", 0))
			orders := allOrders()
			idx := 0
			for k := 0; k < c.N(24, 400); k++ {
				d := make([]byte, 11)
				for i := range d {
					d[i] = byte('0' + rng.Intn(10))
				}
				e8 := string(d[0:4]) + string(d[6:9])
				d[9] = byte('0' + onedref.CheckDigit(e8))
				upca := string(d)
				upca += string(rune('0' + onedref.CheckDigit(upca)))
				for _, sym := range []string{"UPCA", "EAN13"} {
					content := upca
					if sym == "EAN13" {
						content = "0" + upca
					}
					for _, o := range orders {
						idx++
						if !c.Mine(idx) {
							continue
						}
						cs := Case{Sym: sym, Content: content, Canonical: content, Margin: -1, Multi: "all:" + o}
						if k%3 == 1 {
							// a subset: EAN-8 and the true format only, in this order's relative order
							sub := ""
							for _, ch := range o {
								if ch == '1' || (sym == "UPCA" && ch == '2') || (sym == "EAN13" && ch == '0') {
									sub += string(ch)
								}
							}
							cs.Multi = "all:" + sub
						}
						c.Note("multi_reader_confusable_orders", "sym="+sym+";first_format="+string(cs.Multi[4]), true, hx.HashS(content, cs.Multi), func() any { return cs })
						if !c.Enum("multi_reader_confusable_orders", "oned_roundtrip", cs, nil) {
							break
						}
					}
				}
			}
		}
		// Code 128 forced code sets: every character value alone, after and between digit pairs
		{
			idx := 0
			for _, set := range []string{"A", "B", "C"} {
				for v := 0; v < 256; v++ {
					if v >= 0xF1 && v <= 0xF4 {
						continue // FNC escapes have their own rules
					}
					for _, shape := range []string{"%s", "12%s", "12%s34", "%s%s", "A%s", "%sa"} {
						idx++
						if !c.Mine(idx) {
							continue
						}
						ch := string(rune(v))
						content := strings.ReplaceAll(shape, "%s", ch)
						cs := Case{Sym: "CODE128", Content: content, Canonical: content, Margin: -1, ForceSet: set}
						c.Note("code128_forced_set_all_chars", "set="+set, true, hx.HashS("forced", set, content), func() any { return cs })
						if !c.Enum("code128_forced_set_all_chars", "oned_forced", cs, nil) {
							break
						}
					}
				}
			}
			c.SetExhaustive("code128_forced_set_all_chars", true)
		}
		// histories on one writer and one reader instance per symbology
		for si := range onedx.Syms {
			s := &onedx.Syms[si]
			c.RapidIdx("instance_histories", 100+si, c.N(60, 1500), 0, func(t *rapid.T) {
				h := History{Sym: s.Name}
				n := rapid.IntRange(2, 5).Draw(t, "steps")
				noisy, margins := 0, map[int]bool{}
				for i := 0; i < n; i++ {
					rng := hx.NewRng(rapid.Uint64().Draw(t, "content"))
					content, canon, _ := onedx.Content(s.Name, rng)
					cs := Case{Sym: s.Name, Content: content, Canonical: canon, Margin: -1}
					geometry(t, &cs, s)
					if upceTrailingQuiet(cs) {
						c.Exclude("upce-trailing-quiet-zone: margin raised to 13")
						cs.Margin = 13
						if upceTrailingQuiet(cs) {
							cs.ReqW = 0
						}
					}
					st := HStep{Case: cs, Noise: rapid.SampledFrom([]string{"", "", "blank", "cut", "foreign"}).Draw(t, "noise")}
					if st.Noise != "" {
						noisy++
					}
					margins[cs.Margin] = true
					h.Steps = append(h.Steps, st)
				}
				cl := s.Name
				if noisy > 0 {
					cl += ";failed_reads_between"
				}
				if len(margins) > 1 {
					cl += ";margin_hint_changes"
				}
				raw, _ := json.Marshal(h)
				c.Note("instance_histories", cl, noisy > 0 || len(margins) > 1, hx.Hash(raw), func() any { return h })
				if err := c.Eval("oned_history", h); err != nil {
					t.Fatalf("%v", err)
				}
			})
		}
		// Code 128 forced code sets with compatible content
		c.Rapid("roundtrip_CODE128_forced_set", c.N(400, 4000), func(t *rapid.T) {
			set := rapid.SampledFrom([]string{"A", "B", "C"}).Draw(t, "set")
			rng := hx.NewRng(rapid.Uint64().Draw(t, "content"))
			n := 1 + rng.Intn(30)
			b := make([]byte, n)
			for i := range b {
				switch set {
				case "A":
					b[i] = byte(rng.Intn(96)) // 0..95
				case "B":
					b[i] = byte(33 + rng.Intn(95)) // 33..127
				default:
					b[i] = byte('0' + rng.Intn(10))
				}
			}
			if set == "C" && n%2 == 1 {
				b = append(b, '7')
			}
			s := onedx.SymByName("CODE128")
			cs := Case{Sym: "CODE128", Content: string(b), Canonical: string(b), Margin: -1, ForceSet: set}
			cl := "set=" + set + ";" + geometry(t, &cs, s)
			raw, _ := json.Marshal(cs)
			c.Note("roundtrip_CODE128_forced_set", cl, true, hx.Hash(raw), func() any { return cs })
			if err := c.Eval("oned_roundtrip", cs); err != nil {
				t.Fatalf("%v", err)
			}
		})

		// every ASCII character alone and in ordered pairs through Code 128, Code 93 and Code 39 full-ASCII
		// (code-set transitions, escape tables), quick: a third of the pairs
		{
			idx := 0
			var n int64
			for _, sym := range []string{"CODE128", "CODE93", "CODE39X"} {
				stop := false
				for a := 0; a < 128 && !stop; a++ {
					for b := -1; b < 128 && !stop; b++ {
						idx++
						if !c.Mine(idx) || (!c.Thorough() && b >= 0 && (a+b+int(c.P.Seed))%3 != 0) {
							continue
						}
						text := string(rune(a))
						if b >= 0 {
							text += string(rune(b))
						}
						if sym == "CODE39X" && strings.Trim(text, onedx.Code39Alphabet) == "" {
							continue // alphabet-only content is not converted to full-ASCII mode: the plain reader's domain
						}
						cs := Case{Sym: sym, Content: text, Canonical: text, Margin: -1}
						raw, _ := json.Marshal(cs)
						hx.JournalCase("oned_roundtrip", raw)
						if err := hx.Safe(func() error { return check(raw) }); err != nil {
							stop = !c.Enum("ascii_pairs_exhaustive", "oned_roundtrip", cs, nil)
						}
						n++
					}
				}
			}
			c.NoteBulk("ascii_pairs_exhaustive", "", n, n, func() any { return Case{Sym: "CODE128", Content: "\x01`", Canonical: "\x01`", Margin: -1} })
			c.SetExhaustive("ascii_pairs_exhaustive", c.Thorough())
		}
		// every ITF length the reader accepts, every Codabar guard pair with every data character
		{
			idx := 0
			for n := 6; n <= 80; n += 2 {
				idx++
				if c.Mine(idx) {
					d := strings.Repeat("0123456789", 8)[:n]
					cs := Case{Sym: "ITF", Content: d, Canonical: d, Margin: -1, ReqH: 5}
					c.NoteBulk("itf_all_lengths", "", 1, 1, func() any { return cs })
					c.Enum("itf_all_lengths", "oned_roundtrip", cs, nil)
				}
			}
			c.SetExhaustive("itf_all_lengths", true)
		}

		// every content length 1..80 of the variable-length symbologies is accepted and reads back,
		// 81.. is refused (or, where the property names no limit, reads back)
		{
			idx := 0
			alpha39 := "ABCDEFGHIJKLMNOPQRSTUVWXYZ0123456789-. $/+%"
			for _, sym := range []string{"CODE39", "CODE93", "CODE128", "CODE128digits", "CODE128ctl"} {
				for n := 1; n <= 84; n++ {
					idx++
					if !c.Mine(idx) {
						continue
					}
					b := make([]byte, n)
					for i := range b {
						switch sym {
						case "CODE128digits":
							b[i] = byte('0' + (i*7+n)%10)
						case "CODE128ctl":
							b[i] = byte((i*11 + n) % 96) // set A repertoire incl. control characters
						case "CODE128":
							b[i] = byte(32 + (i*13+n)%95)
						default:
							b[i] = alpha39[(i*5+n)%len(alpha39)]
						}
					}
					name := sym
					if strings.HasPrefix(sym, "CODE128") {
						name = "CODE128"
					}
					cs := Case{Sym: name, Content: string(b), Canonical: string(b), Margin: -1, ReqH: 3}
					kind := "oned_roundtrip"
					cl := sym + ";within_limit"
					if n > 80 {
						kind, cl = "oned_overlong", sym+";over_limit"
					}
					c.Note("length_limits", cl, n >= 70, hx.HashS("len", sym, string(b)), func() any { return cs })
					c.Enum("length_limits", kind, cs, nil)
				}
			}
			c.SetExhaustive("length_limits", true)
		}

		// malformed contents must be rejected
		c.Rapid("rejects", c.N(1500, 15000), func(t *rapid.T) {
			rng := hx.NewRng(rapid.Uint64().Draw(t, "content"))
			sym := rapid.SampledFrom([]string{"EAN13", "EAN8", "UPCA", "UPCE", "ITF", "CODE39", "CODE93", "CODE128", "CODABAR"}).Draw(t, "sym")
			var rc RejectCase
			rc.Sym = sym
			digs := func(n int) string {
				b := make([]byte, n)
				for i := range b {
					b[i] = byte('0' + rng.Intn(10))
				}
				return string(b)
			}
			kind := rapid.IntRange(0, 2).Draw(t, "kind")
			full := map[string]int{"EAN13": 13, "EAN8": 8, "UPCA": 12, "UPCE": 8}
			switch {
			case full[sym] > 0 && kind == 0: // wrong check digit (each of the 9)
				n := full[sym]
				d := digs(n - 1)
				if sym == "UPCE" {
					d = string(rune('0'+rng.Intn(2))) + d[1:]
				}
				good := onedref.CheckDigit(d)
				if sym == "UPCE" {
					good = onedref.CheckDigit(onedref.ExpandUPCE(d))
				}
				wrong := (good + 1 + rng.Intn(9)) % 10
				rc.Content, rc.Why = d+string(rune('0'+wrong)), "wrong check digit"
			case full[sym] > 0 && kind == 1: // wrong length
				n := full[sym]
				opts := []int{1, n - 3, n - 2, n + 1, n + 2, 20}
				rc.Content, rc.Why = digs(opts[rng.Intn(len(opts))]), "wrong length"
			case full[sym] > 0: // non-digit
				n := full[sym] - 1
				d := []byte(digs(n))
				if sym == "UPCE" {
					d[0] = '0'
				}
				d[rng.Intn(n)] = "aX -/"[rng.Intn(5)]
				rc.Content, rc.Why = string(d), "non-digit character"
			case sym == "UPCE":
			case sym == "ITF" && kind == 0:
				rc.Content, rc.Why = digs(2*rng.Intn(20)+1), "odd length"
			case sym == "ITF" && kind == 1:
				rc.Content, rc.Why = digs(82+2*rng.Intn(5)), "longer than 80"
			case sym == "ITF":
				d := []byte(digs(8))
				d[rng.Intn(8)] = 'A'
				rc.Content, rc.Why = string(d), "non-digit character"
			case sym == "CODE39" && kind == 0:
				rc.Content, rc.Why = strings.Repeat("A", 81+rng.Intn(5)), "longer than 80"
			case sym == "CODE39":
				rc.Content, rc.Why = "AB"+string(rune(0x80+rng.Intn(0x7f)))+"C", "character outside ASCII"
			case sym == "CODE93":
				rc.Content, rc.Why = "AB"+string(rune(0x80+rng.Intn(0x7f)))+"C", "character outside ASCII"
			case sym == "CODE128" && kind == 0:
				rc.Content, rc.Why = strings.Repeat("a", 81+rng.Intn(5)), "longer than 80"
			case sym == "CODE128":
				rc.Content, rc.Why = "ab"+string(rune(0x100+rng.Intn(0x700)))+"c", "character outside ASCII"
			case sym == "CODABAR" && kind == 0:
				rc.Content, rc.Why = "A12"+string("EFGHIJ_"[rng.Intn(7)])+"34B", "character outside the alphabet"
			case sym == "CODABAR" && kind == 1:
				rc.Content, rc.Why = "A1234", "start guard without stop guard"
			default:
				rc.Content, rc.Why = "A1234T", "mixed normal / alternate guards"
			}
			if rc.Content == "" {
				t.Skip("no case")
			}
			// EAN wrong-length content must not accidentally be an accepted length
			raw, _ := json.Marshal(rc)
			c.Note("rejects", "sym="+sym+";"+rc.Why, true, hx.Hash(raw), func() any { return rc })
			if err := c.Eval("oned_reject", rc); err != nil {
				t.Fatalf("%v", err)
			}
		})

		// exhaustive number spaces (thorough: complete; quick: strided)
		exh := func(sub, sym string, total int, mk func(i int) string) {
			s := onedx.SymByName(sym)
			stride := 1
			if !c.Thorough() {
				stride = total / c.N(20000, 0)
			}
			off := 0
			if stride > 1 {
				off = int(c.Seed(sub, 0) % uint64(stride))
			}
			var n int64
			for i := off; i < total; i += stride {
				if !c.Mine(i / stride) {
					continue
				}
				d := mk(i)
				var canon string
				if sym == "UPCE" {
					canon = d + string(rune('0'+onedref.CheckDigit(onedref.ExpandUPCE(d))))
				} else {
					canon = d + string(rune('0'+onedref.CheckDigit(d)))
				}
				cs := Case{Sym: sym, Content: d, Canonical: canon, Margin: -1}
				if sym == "UPCE" {
					cs.Margin = 13 // default margin: known finding upce-trailing-quiet-zone
				}
				if i%2 == 1 {
					cs.Content = canon
				}
				raw, _ := json.Marshal(cs)
				hx.JournalCase("oned_roundtrip", raw)
				if err := hx.Safe(func() error { return check(raw) }); err != nil {
					c.Enum(sub, "oned_roundtrip", cs, nil)
					break
				}
				n++
			}
			c.NoteBulk(sub, "", n, n, func() any { return Case{Sym: sym, Content: mk(off), Margin: -1} })
			c.SetExhaustive(sub, stride == 1)
			_ = s
		}
		exh("upce_all_numbers", "UPCE", 2_000_000, func(i int) string { return fmt.Sprintf("%07d", i) })
		exh("ean8_all_payloads", "EAN8", 10_000_000, func(i int) string { return fmt.Sprintf("%07d", i) })
	})
}
