// C19: grid sampling and perspective mapping are geometrically exact and bounded.
package c19

import (
	"encoding/json"
	"errors"
	"fmt"
	"math"
	"math/big"
	"testing"

	"github.com/makiuchi-d/gozxing"
	"github.com/makiuchi-d/gozxing/common"
	qrdet "github.com/makiuchi-d/gozxing/qrcode/detector"
	"pgregory.net/rapid"

	"verif/internal/hx"
)

const prec = 256

func bf(x float64) *big.Float { return new(big.Float).SetPrec(prec).SetFloat64(x) }

// solveProjective returns the 8 coefficients (a,b,c,d,e,f,g,h) of the unique
// projective map x' = (ax+by+c)/(gx+hy+1), y' = (dx+ey+f)/(gx+hy+1) through
// the four point pairs, solved by Gaussian elimination in 256-bit floats.
func solveProjective(src, dst [8]float64) ([8]*big.Float, bool) {
	var m [8][9]*big.Float
	for i := 0; i < 4; i++ {
		x, y := bf(src[2*i]), bf(src[2*i+1])
		u, v := bf(dst[2*i]), bf(dst[2*i+1])
		zero := func() *big.Float { return bf(0) }
		neg := func(a, b *big.Float) *big.Float {
			return new(big.Float).SetPrec(prec).Neg(new(big.Float).SetPrec(prec).Mul(a, b))
		}
		m[2*i] = [9]*big.Float{x, y, bf(1), zero(), zero(), zero(), neg(x, u), neg(y, u), u}
		m[2*i+1] = [9]*big.Float{zero(), zero(), zero(), x, y, bf(1), neg(x, v), neg(y, v), v}
	}
	for col := 0; col < 8; col++ {
		piv := col
		for r := col + 1; r < 8; r++ {
			if new(big.Float).Abs(m[r][col]).Cmp(new(big.Float).Abs(m[piv][col])) > 0 {
				piv = r
			}
		}
		if new(big.Float).Abs(m[piv][col]).Cmp(bf(1e-30)) < 0 {
			return [8]*big.Float{}, false
		}
		m[col], m[piv] = m[piv], m[col]
		for r := 0; r < 8; r++ {
			if r == col {
				continue
			}
			f := new(big.Float).SetPrec(prec).Quo(m[r][col], m[col][col])
			for k := col; k < 9; k++ {
				m[r][k] = new(big.Float).SetPrec(prec).Sub(m[r][k], new(big.Float).SetPrec(prec).Mul(f, m[col][k]))
			}
		}
	}
	var out [8]*big.Float
	for i := 0; i < 8; i++ {
		out[i] = new(big.Float).SetPrec(prec).Quo(m[i][8], m[i][i])
	}
	return out, true
}

func applyProjective(co [8]*big.Float, x, y float64) (*big.Float, *big.Float, bool) {
	X, Y := bf(x), bf(y)
	mul := func(a, b *big.Float) *big.Float { return new(big.Float).SetPrec(prec).Mul(a, b) }
	add := func(a ...*big.Float) *big.Float {
		s := bf(0)
		for _, v := range a {
			s = new(big.Float).SetPrec(prec).Add(s, v)
		}
		return s
	}
	den := add(mul(co[6], X), mul(co[7], Y), bf(1))
	if new(big.Float).Abs(den).Cmp(bf(1e-12)) < 0 {
		return nil, nil, false
	}
	u := new(big.Float).SetPrec(prec).Quo(add(mul(co[0], X), mul(co[1], Y), co[2]), den)
	v := new(big.Float).SetPrec(prec).Quo(add(mul(co[3], X), mul(co[4], Y), co[5]), den)
	return u, v, true
}

// evalF evaluates the map (coefficients solved in 256-bit floats, rounded to
// float64) in double precision; cells closer than 1e-6 to a pixel boundary are
// skipped by the callers, which dwarfs the 1e-10 evaluation error.
func evalF(co [8]*big.Float, x, y float64) (float64, float64, bool) {
	var k [8]float64
	for i := range k {
		k[i], _ = co[i].Float64()
	}
	den := k[6]*x + k[7]*y + 1
	if math.Abs(den) < 1e-12 {
		return 0, 0, false
	}
	return (k[0]*x + k[1]*y + k[2]) / den, (k[3]*x + k[4]*y + k[5]) / den, true
}

// ---------------------------------------------------------------- transform

type TCase struct {
	Src [8]float64   `json:"src"`
	Dst [8]float64   `json:"dst"`
	Pts [][2]float64 `json:"pts"` // probe points as (s,t) in the unit square, mapped bilinearly into Src
}

// wellShaped reports whether q is a convex quadrilateral with every interior angle clearly away from
// 0 and 180 degrees (the property quantifies over non-degenerate convex quadrilaterals).
func wellShaped(q [8]float64) bool {
	sign := 0.0
	for i := 0; i < 4; i++ {
		ax, ay := q[2*((i+1)%4)]-q[2*i], q[2*((i+1)%4)+1]-q[2*i+1]
		bx, by := q[2*((i+2)%4)]-q[2*((i+1)%4)], q[2*((i+2)%4)+1]-q[2*((i+1)%4)+1]
		cr := ax*by - ay*bx
		la, lb := math.Hypot(ax, ay), math.Hypot(bx, by)
		if la < 0.5 || lb < 0.5 || math.Abs(cr) < 0.2*la*lb {
			return false
		}
		if sign == 0 {
			sign = cr
		} else if (cr > 0) != (sign > 0) {
			return false
		}
	}
	return true
}

// THist: several transforms built one after the other from related quadrilateral pairs (the same
// pair with one corner moved, or an unrelated pair) and all kept alive; afterwards each transform
// must still map its own source corners onto its own destinations.
type THist struct {
	Pairs [][2][8]float64 `json:"pairs"` // (src, dst)
}

func checkTHist(raw json.RawMessage) error {
	var h THist
	if err := json.Unmarshal(raw, &h); err != nil {
		return fmt.Errorf("hx: %v", err)
	}
	trs := make([]*common.PerspectiveTransform, len(h.Pairs))
	for i, pr := range h.Pairs {
		s, d := pr[0], pr[1]
		trs[i] = common.PerspectiveTransform_QuadrilateralToQuadrilateral(s[0], s[1], s[2], s[3], s[4], s[5], s[6], s[7], d[0], d[1], d[2], d[3], d[4], d[5], d[6], d[7])
	}
	for i, pr := range h.Pairs {
		s, d := pr[0], pr[1]
		if _, ok := solveProjective(s, d); !ok || !wellShaped(s) || !wellShaped(d) {
			continue
		}
		scale := 0.0
		for _, v := range d {
			scale = math.Max(scale, math.Abs(v))
		}
		pts := append([]float64(nil), s[:]...)
		trs[i].TransformPoints(pts)
		for k := 0; k < 8; k++ {
			if math.Abs(pts[k]-d[k]) > 1e-6*math.Max(1, scale) {
				return fmt.Errorf("transform %d of %d built in one process: source corner %d maps to coordinate %v, its destination is %v (src %v dst %v; all pairs %v)", i+1, len(h.Pairs), k/2, pts[k], d[k], s, d, h.Pairs)
			}
		}
	}
	return nil
}

func relClose(got float64, want *big.Float, scale float64) bool {
	w, _ := want.Float64()
	return math.Abs(got-w) <= 1e-6*math.Max(1, scale)
}

func checkTransform(raw json.RawMessage) error {
	var c TCase
	if err := json.Unmarshal(raw, &c); err != nil {
		return fmt.Errorf("hx: %v", err)
	}
	co, ok := solveProjective(c.Src, c.Dst)
	if !ok {
		return nil // degenerate for the reference parametrisation: skipped
	}
	tr := common.PerspectiveTransform_QuadrilateralToQuadrilateral(
		c.Src[0], c.Src[1], c.Src[2], c.Src[3], c.Src[4], c.Src[5], c.Src[6], c.Src[7],
		c.Dst[0], c.Dst[1], c.Dst[2], c.Dst[3], c.Dst[4], c.Dst[5], c.Dst[6], c.Dst[7])
	scale := 0.0
	for _, v := range c.Dst {
		scale = math.Max(scale, math.Abs(v))
	}
	pts := append([]float64(nil), c.Src[:]...)
	tr.TransformPoints(pts)
	for i := 0; i < 8; i++ {
		if math.Abs(pts[i]-c.Dst[i]) > 1e-6*math.Max(1, scale) {
			return fmt.Errorf("source corner %d maps to coordinate %v, destination corner is %v (src %v dst %v)", i/2, pts[i], c.Dst[i], c.Src, c.Dst)
		}
	}
	for _, st := range c.Pts {
		s, t := st[0], st[1]
		// bilinear interpolation into the source quadrilateral (interior point)
		x := (1-s)*(1-t)*c.Src[0] + s*(1-t)*c.Src[2] + s*t*c.Src[4] + (1-s)*t*c.Src[6]
		y := (1-s)*(1-t)*c.Src[1] + s*(1-t)*c.Src[3] + s*t*c.Src[5] + (1-s)*t*c.Src[7]
		u, v, ok := applyProjective(co, x, y)
		if !ok {
			continue
		}
		p := []float64{x, y}
		tr.TransformPoints(p)
		if !relClose(p[0], u, scale) || !relClose(p[1], v, scale) {
			uf, _ := u.Float64()
			vf, _ := v.Float64()
			return fmt.Errorf("point (%v,%v) maps to (%v,%v), the projective map through the corners gives (%v,%v) (src %v dst %v)", x, y, p[0], p[1], uf, vf, c.Src, c.Dst)
		}
		xs, ys := []float64{x}, []float64{y}
		tr.TransformPointsXY(xs, ys)
		if xs[0] != p[0] || ys[0] != p[1] {
			return fmt.Errorf("TransformPointsXY disagrees with TransformPoints at (%v,%v)", x, y)
		}
	}
	// square <-> quadrilateral compose to the identity
	s2q := common.PerspectiveTransform_SquareToQuadrilateral(c.Dst[0], c.Dst[1], c.Dst[2], c.Dst[3], c.Dst[4], c.Dst[5], c.Dst[6], c.Dst[7])
	q2s := common.PerspectiveTransform_QuadrilateralToSquare(c.Dst[0], c.Dst[1], c.Dst[2], c.Dst[3], c.Dst[4], c.Dst[5], c.Dst[6], c.Dst[7])
	for _, st := range append(c.Pts, [2]float64{0, 0}, [2]float64{1, 0}, [2]float64{1, 1}, [2]float64{0, 1}) {
		p := []float64{st[0], st[1]}
		s2q.TransformPoints(p)
		q2s.TransformPoints(p)
		if math.Abs(p[0]-st[0]) > 1e-6 || math.Abs(p[1]-st[1]) > 1e-6 {
			return fmt.Errorf("QuadrilateralToSquare(SquareToQuadrilateral(%v)) = %v for quadrilateral %v", st, p, c.Dst)
		}
	}
	return nil
}

// QTCase: the transform the QR detector builds from the three finder-pattern centres and (when one was
// found) the alignment-pattern centre. By the symbol's geometry the finder centres are the grid points
// (3.5,3.5), (dim-3.5,3.5), (3.5,dim-3.5) and the alignment centre is (dim-6.5,dim-6.5); the transform
// must map each of them onto the image point that was found and agree with the unique projective map
// through the four pairs. Without an alignment pattern the fourth corner is the parallelogram point.
type QTCase struct {
	Dim   int          `json:"dim"`
	TL    [2]float64   `json:"tl"`
	TR    [2]float64   `json:"tr"`
	BL    [2]float64   `json:"bl"`
	Align *[2]float64  `json:"align,omitempty"`
	Pts   [][2]float64 `json:"pts"` // probe grid points as fractions of the grid
}

func checkQRTransform(raw json.RawMessage) error {
	var c QTCase
	if err := json.Unmarshal(raw, &c); err != nil {
		return fmt.Errorf("hx: %v", err)
	}
	d := float64(c.Dim)
	src := [8]float64{3.5, 3.5, d - 3.5, 3.5, d - 3.5, d - 3.5, 3.5, d - 3.5}
	dst := [8]float64{c.TL[0], c.TL[1], c.TR[0], c.TR[1], c.TR[0] - c.TL[0] + c.BL[0], c.TR[1] - c.TL[1] + c.BL[1], c.BL[0], c.BL[1]}
	var ap *qrdet.AlignmentPattern
	if c.Align != nil {
		src[4], src[5] = d-6.5, d-6.5
		dst[4], dst[5] = c.Align[0], c.Align[1]
		ap = qrdet.NewAlignmentPattern(c.Align[0], c.Align[1], 1)
	}
	if !wellShaped(src) || !wellShaped(dst) {
		return fmt.Errorf("hx: not a well-shaped quadrilateral pair")
	}
	co, ok := solveProjective(src, dst)
	if !ok {
		return fmt.Errorf("hx: degenerate")
	}
	tr := qrdet.Detector_createTransform(gozxing.NewResultPoint(c.TL[0], c.TL[1]), gozxing.NewResultPoint(c.TR[0], c.TR[1]), gozxing.NewResultPoint(c.BL[0], c.BL[1]), ap, c.Dim)
	scale := 0.0
	for _, v := range dst {
		scale = math.Max(scale, math.Abs(v))
	}
	pts := append([]float64(nil), src[:]...)
	tr.TransformPoints(pts)
	names := []string{"top-left finder centre", "top-right finder centre", "alignment centre", "bottom-left finder centre"}
	if ap == nil {
		names[2] = "parallelogram corner"
	}
	for i := 0; i < 8; i++ {
		if math.Abs(pts[i]-dst[i]) > 1e-6*math.Max(1, scale) {
			return fmt.Errorf("QR detector transform for dimension %d: grid point (%v,%v) (%s) maps to (%v,%v), the point found in the image is (%v,%v)", c.Dim, src[i/2*2], src[i/2*2+1], names[i/2], pts[i/2*2], pts[i/2*2+1], dst[i/2*2], dst[i/2*2+1])
		}
	}
	for _, st := range c.Pts {
		x, y := st[0]*d, st[1]*d
		u, v, ok := applyProjective(co, x, y)
		if !ok {
			continue
		}
		p := []float64{x, y}
		tr.TransformPoints(p)
		if !relClose(p[0], u, scale) || !relClose(p[1], v, scale) {
			uf, _ := u.Float64()
			vf, _ := v.Float64()
			return fmt.Errorf("QR detector transform for dimension %d (finder centres %v %v %v, alignment %v): grid point (%v,%v) maps to (%v,%v), the projective map through the four centres gives (%v,%v)", c.Dim, c.TL, c.TR, c.BL, c.Align, x, y, p[0], p[1], uf, vf)
		}
	}
	return nil
}

// ------------------------------------------------------------------ sampling

type SCase struct {
	W, H int        `json:"-"`
	Img  string     `json:"img"` // "noise:<seed>" | "checker:<k>" | "black"
	ImgW int        `json:"img_w"`
	ImgH int        `json:"img_h"`
	DimX int        `json:"dim_x"`
	DimY int        `json:"dim_y"`
	Dst  [8]float64 `json:"dst"` // image-space quadrilateral the grid [0,DimX]x[0,DimY] maps to
	// Src, when set, is the grid-side quadrilateral that maps to Dst (default: the grid rectangle's corners)
	Src *[8]float64 `json:"src,omitempty"`
}

func makeImage(c SCase) *gozxing.BitMatrix {
	bm, _ := gozxing.NewBitMatrix(c.ImgW, c.ImgH)
	var kind string
	var arg uint64
	fmt.Sscanf(c.Img, "%5s", &kind)
	switch {
	case c.Img == "black":
		for y := 0; y < c.ImgH; y++ {
			bm.SetRegion(0, y, c.ImgW, 1)
		}
	case len(c.Img) > 6 && c.Img[:6] == "noise:":
		fmt.Sscanf(c.Img[6:], "%d", &arg)
		rng := hx.NewRng(arg)
		for y := 0; y < c.ImgH; y++ {
			for x := 0; x < c.ImgW; x++ {
				if rng.Bool() {
					bm.Set(x, y)
				}
			}
		}
	default:
		fmt.Sscanf(c.Img[8:], "%d", &arg)
		k := int(arg)
		if k < 1 {
			k = 1
		}
		for y := 0; y < c.ImgH; y++ {
			for x := 0; x < c.ImgW; x++ {
				if (x/k+y/k)%2 == 0 {
					bm.Set(x, y)
				}
			}
		}
	}
	return bm
}

func isNotFound(err error) bool {
	var nf gozxing.NotFoundException
	return errors.As(err, &nf)
}

func checkSample(raw json.RawMessage) error {
	var c SCase
	if err := json.Unmarshal(raw, &c); err != nil {
		return fmt.Errorf("hx: %v", err)
	}
	img := makeImage(c)
	dx, dy := float64(c.DimX), float64(c.DimY)
	src := [8]float64{0, 0, dx, 0, dx, dy, 0, dy}
	if c.Src != nil {
		src = *c.Src
	}
	bits, err := common.GridSampler_GetInstance().SampleGrid(img, c.DimX, c.DimY,
		src[0], src[1], src[2], src[3], src[4], src[5], src[6], src[7],
		c.Dst[0], c.Dst[1], c.Dst[2], c.Dst[3], c.Dst[4], c.Dst[5], c.Dst[6], c.Dst[7])
	desc := fmt.Sprintf("grid %dx%d, grid-side points %v -> %v in a %dx%d %s image", c.DimX, c.DimY, src, c.Dst, c.ImgW, c.ImgH, c.Img)
	if err != nil && !isNotFound(err) {
		return fmt.Errorf("error is not a NotFoundException: %v [%s]", err, desc)
	}
	if err == nil && bits == nil {
		return fmt.Errorf("neither grid nor error [%s]", desc)
	}
	if c.Img == "black" {
		if err != nil {
			return nil
		}
		for y := 0; y < c.DimY; y++ {
			for x := 0; x < c.DimX; x++ {
				if !bits.Get(x, y) {
					return fmt.Errorf("cell (%d,%d) sampled white from an all-black image: a pixel outside the image was read [%s]", x, y, desc)
				}
			}
		}
		return nil
	}
	co, ok := solveProjective(src, c.Dst)
	if !ok {
		return nil
	}
	// all cell centres must lie inside the image for the exactness clause
	type cell struct {
		x, y   int
		px, py int
		near   bool
	}
	var cells []cell
	for y := 0; y < c.DimY; y++ {
		for x := 0; x < c.DimX; x++ {
			uf, vf, ok := evalF(co, float64(x)+0.5, float64(y)+0.5)
			if !ok {
				return nil
			}
			if uf < 0.001 || vf < 0.001 || uf > float64(c.ImgW)-0.001 || vf > float64(c.ImgH)-0.001 {
				return nil // a cell centre outside / on the border: covered by the nudge checks, not here
			}
			near := math.Abs(uf-math.Round(uf)) < 1e-6 || math.Abs(vf-math.Round(vf)) < 1e-6
			cells = append(cells, cell{x, y, int(math.Floor(uf)), int(math.Floor(vf)), near})
		}
	}
	if err != nil {
		return fmt.Errorf("sampling failed (%v) although every cell centre lies inside the image [%s]", err, desc)
	}
	if bits.GetWidth() != c.DimX || bits.GetHeight() != c.DimY {
		return fmt.Errorf("sampled grid is %dx%d [%s]", bits.GetWidth(), bits.GetHeight(), desc)
	}
	for _, cl := range cells {
		if cl.near {
			continue
		}
		if bits.Get(cl.x, cl.y) != img.Get(cl.px, cl.py) {
			return fmt.Errorf("cell (%d,%d) = %v, image pixel (%d,%d) under the transformed cell centre is %v [%s]", cl.x, cl.y, bits.Get(cl.x, cl.y), cl.px, cl.py, img.Get(cl.px, cl.py), desc)
		}
	}
	return nil
}

// -------------------------------------------------------------------- nudge

type NCase struct {
	ImgW, ImgH int       `json:"-"`
	W          int       `json:"w"`
	H          int       `json:"h"`
	Points     []float64 `json:"points"`
}

func checkNudge(raw json.RawMessage) error {
	var c NCase
	if err := json.Unmarshal(raw, &c); err != nil {
		return fmt.Errorf("hx: %v", err)
	}
	img, _ := gozxing.NewBitMatrix(c.W, c.H)
	pts := append([]float64(nil), c.Points...)
	err := common.GridSampler_checkAndNudgePoints(img, pts)
	// model (the rows are built so that out-of-image points form a prefix and/or a suffix)
	beyond := false
	for i := 0; i+1 < len(c.Points); i += 2 {
		x, y := int(c.Points[i]), int(c.Points[i+1])
		if x < -1 || x > c.W || y < -1 || y > c.H {
			beyond = true
		}
	}
	desc := fmt.Sprintf("%dx%d image, points %v", c.W, c.H, c.Points)
	if beyond {
		if err == nil {
			return fmt.Errorf("a point more than one pixel outside the image was accepted [%s]", desc)
		}
		if !isNotFound(err) {
			return fmt.Errorf("error is not a NotFoundException: %v [%s]", err, desc)
		}
		return nil
	}
	if err != nil {
		return fmt.Errorf("points at most one pixel outside were rejected: %v [%s]", err, desc)
	}
	for i := 0; i+1 < len(pts); i += 2 {
		ox, oy := int(c.Points[i]), int(c.Points[i+1])
		nx, ny := int(pts[i]), int(pts[i+1])
		wantX, wantY := ox, oy
		if ox == -1 {
			wantX = 0
		} else if ox == c.W {
			wantX = c.W - 1
		}
		if oy == -1 {
			wantY = 0
		} else if oy == c.H {
			wantY = c.H - 1
		}
		if nx != wantX || ny != wantY {
			return fmt.Errorf("point %d (%v,%v) ends at pixel (%d,%d), expected (%d,%d) [%s]", i/2, c.Points[i], c.Points[i+1], nx, ny, wantX, wantY, desc)
		}
		if (ox == wantX && pts[i] != c.Points[i]) || (oy == wantY && pts[i+1] != c.Points[i+1]) {
			return fmt.Errorf("an in-range coordinate of point %d was changed [%s]", i/2, desc)
		}
	}
	return nil
}

// EdgeCase: sampling through a translation so that the first / last row or
// column of cell centres falls into an edge strip.
type EdgeCase struct {
	W    int     `json:"w"`
	H    int     `json:"h"`
	Dim  int     `json:"dim"`
	OffX float64 `json:"off_x"`
	OffY float64 `json:"off_y"`
	ShX  float64 `json:"shear_x"` // x += ShX * (y+0.5)
	ShY  float64 `json:"shear_y"` // y += ShY * (x+0.5)
	Seed uint64  `json:"seed"`
}

func (c EdgeCase) at(x, y float64) (float64, float64) {
	return x + c.OffX + c.ShX*y, y + c.OffY + c.ShY*x
}

func checkEdge(raw json.RawMessage) error {
	var c EdgeCase
	if err := json.Unmarshal(raw, &c); err != nil {
		return fmt.Errorf("hx: %v", err)
	}
	sc := SCase{Img: fmt.Sprintf("noise:%d", c.Seed), ImgW: c.W, ImgH: c.H}
	img := makeImage(sc)
	d := float64(c.Dim)
	x0, y0 := c.at(0, 0)
	x1, y1 := c.at(d, 0)
	x2, y2 := c.at(d, d)
	x3, y3 := c.at(0, d)
	bits, err := common.GridSampler_GetInstance().SampleGrid(img, c.Dim, c.Dim,
		0, 0, d, 0, d, d, 0, d,
		x0, y0, x1, y1, x2, y2, x3, y3)
	desc := fmt.Sprintf("%dx%d image, %dx%d grid translated by (%v,%v), sheared by (%v,%v)", c.W, c.H, c.Dim, c.Dim, c.OffX, c.OffY, c.ShX, c.ShY)
	// expected pixel per cell: truncate the centre, pull -1 -> 0 and w -> w-1; anything farther: NotFound
	beyond := false
	want := make([][]bool, c.Dim)
	for y := 0; y < c.Dim; y++ {
		want[y] = make([]bool, c.Dim)
		for x := 0; x < c.Dim; x++ {
			fx, fy := c.at(float64(x)+0.5, float64(y)+0.5)
			if math.Abs(fx-math.Round(fx)) < 1e-6 || math.Abs(fy-math.Round(fy)) < 1e-6 {
				return nil // a centre on a pixel boundary: either side is acceptable
			}
			px, py := int(fx), int(fy)
			if px < -1 || px > c.W || py < -1 || py > c.H {
				beyond = true
				continue
			}
			if px == -1 {
				px = 0
			} else if px == c.W {
				px = c.W - 1
			}
			if py == -1 {
				py = 0
			} else if py == c.H {
				py = c.H - 1
			}
			want[y][x] = img.Get(px, py)
		}
	}
	if beyond {
		if err == nil {
			return fmt.Errorf("grid reaching more than one pixel outside the image was sampled [%s]", desc)
		}
		if !isNotFound(err) {
			return fmt.Errorf("error is not a NotFoundException: %v [%s]", err, desc)
		}
		return nil
	}
	if err != nil {
		return fmt.Errorf("sampling failed (%v) although no cell centre is more than one pixel outside the image [%s]", err, desc)
	}
	for y := 0; y < c.Dim; y++ {
		for x := 0; x < c.Dim; x++ {
			if bits.Get(x, y) != want[y][x] {
				return fmt.Errorf("cell (%d,%d) = %v, expected the edge pixel value %v [%s]", x, y, bits.Get(x, y), want[y][x], desc)
			}
		}
	}
	return nil
}

// ---------------------------------------------------------------- generators

func genQuad(t *rapid.T, label string, cx, cy, size float64) ([8]float64, string) {
	kind := rapid.SampledFrom([]string{"axis", "rotated", "sheared", "perspective"}).Draw(t, label+"kind")
	w := size * rapid.Float64Range(0.3, 1).Draw(t, label+"w")
	h := size * rapid.Float64Range(0.3, 1).Draw(t, label+"h")
	base := [8]float64{-w / 2, -h / 2, w / 2, -h / 2, w / 2, h / 2, -w / 2, h / 2}
	switch kind {
	case "rotated":
		a := rapid.Float64Range(0, 2*math.Pi).Draw(t, label+"angle")
		for i := 0; i < 4; i++ {
			x, y := base[2*i], base[2*i+1]
			base[2*i], base[2*i+1] = x*math.Cos(a)-y*math.Sin(a), x*math.Sin(a)+y*math.Cos(a)
		}
	case "sheared":
		k := rapid.Float64Range(-0.8, 0.8).Draw(t, label+"shear")
		for i := 0; i < 4; i++ {
			base[2*i] += k * base[2*i+1]
		}
	case "perspective":
		for i := 0; i < 8; i++ {
			base[i] += rapid.Float64Range(-0.18, 0.18).Draw(t, label+"jit") * math.Min(w, h)
		}
		a := rapid.Float64Range(0, 2*math.Pi).Draw(t, label+"angle")
		for i := 0; i < 4; i++ {
			x, y := base[2*i], base[2*i+1]
			base[2*i], base[2*i+1] = x*math.Cos(a)-y*math.Sin(a), x*math.Sin(a)+y*math.Cos(a)
		}
	}
	for i := 0; i < 4; i++ {
		base[2*i] += cx
		base[2*i+1] += cy
	}
	return base, kind
}

func TestCheck(t *testing.T) {
	hx.Main(t, "C19", func(c *hx.Ctx) {
		c.Register("transform", checkTransform)
		c.Register("transform_history", checkTHist)
		c.Register("sample", checkSample)
		c.Register("nudge", checkNudge)
		c.Register("edge", checkEdge)
		c.Register("qr_transform", checkQRTransform)
	}, func(c *hx.Ctx) {
		c.Rapid("transform_vs_projective_solve", c.N(4000, 40000), func(t *rapid.T) {
			src, k1 := genQuad(t, "src", rapid.Float64Range(-50, 200).Draw(t, "scx"), rapid.Float64Range(-50, 200).Draw(t, "scy"), rapid.Float64Range(4, 180).Draw(t, "ssize"))
			dst, k2 := genQuad(t, "dst", rapid.Float64Range(-50, 400).Draw(t, "dcx"), rapid.Float64Range(-50, 400).Draw(t, "dcy"), rapid.Float64Range(4, 300).Draw(t, "dsize"))
			cs := TCase{Src: src, Dst: dst}
			for i := 0; i < 6; i++ {
				cs.Pts = append(cs.Pts, [2]float64{rapid.Float64Range(0.02, 0.98).Draw(t, "s"), rapid.Float64Range(0.02, 0.98).Draw(t, "t")})
			}
			raw, _ := json.Marshal(cs)
			c.Note("transform_vs_projective_solve", "src="+k1+";dst="+k2, k1 == "perspective" || k2 == "perspective", hx.Hash(raw), func() any { return cs })
			if err := c.Eval("transform", cs); err != nil {
				t.Fatalf("%v", err)
			}
		})
		c.Rapid("transform_histories", c.N(1500, 20000), func(t *rapid.T) {
			src, _ := genQuad(t, "src", rapid.Float64Range(0, 100).Draw(t, "scx"), rapid.Float64Range(0, 100).Draw(t, "scy"), rapid.Float64Range(4, 120).Draw(t, "ssize"))
			dst, _ := genQuad(t, "dst", rapid.Float64Range(0, 300).Draw(t, "dcx"), rapid.Float64Range(0, 300).Draw(t, "dcy"), rapid.Float64Range(4, 250).Draw(t, "dsize"))
			h := THist{Pairs: [][2][8]float64{{src, dst}}}
			n := rapid.IntRange(1, 4).Draw(t, "more")
			oneCorner := 0
			for i := 0; i < n; i++ {
				s2, d2 := h.Pairs[len(h.Pairs)-1][0], h.Pairs[len(h.Pairs)-1][1]
				switch rapid.IntRange(0, 3).Draw(t, "how") {
				case 0: // an unrelated pair
					s2, _ = genQuad(t, "src2", 50, 50, rapid.Float64Range(4, 120).Draw(t, "s2size"))
					d2, _ = genQuad(t, "dst2", 150, 150, rapid.Float64Range(4, 250).Draw(t, "d2size"))
				case 1: // one source corner moved a little
					k := rapid.IntRange(0, 3).Draw(t, "corner")
					s2[2*k] += rapid.Float64Range(-3, 3).Draw(t, "dx")
					s2[2*k+1] += rapid.Float64Range(-3, 3).Draw(t, "dy")
					oneCorner++
				case 2: // one destination corner moved a little
					k := rapid.IntRange(0, 3).Draw(t, "corner")
					d2[2*k] += rapid.Float64Range(-6, 6).Draw(t, "dx")
					d2[2*k+1] += rapid.Float64Range(-6, 6).Draw(t, "dy")
					oneCorner++
				default: // the same pair again
				}
				if !wellShaped(s2) || !wellShaped(d2) {
					// moving the corner made the quadrilateral (nearly) degenerate or concave: keep the previous pair
					s2, d2 = h.Pairs[len(h.Pairs)-1][0], h.Pairs[len(h.Pairs)-1][1]
				}
				h.Pairs = append(h.Pairs, [2][8]float64{s2, d2})
			}
			raw, _ := json.Marshal(h)
			c.Note("transform_histories", fmt.Sprintf("pairs=%d;one_corner_moved=%d", len(h.Pairs), min(oneCorner, 2)), len(h.Pairs) > 1, hx.Hash(raw), func() any { return h })
			if err := c.Eval("transform_history", h); err != nil {
				t.Fatalf("%v", err)
			}
		})
		c.Rapid("qr_detector_transform", c.N(1500, 20000), func(t *rapid.T) {
			ver := rapid.IntRange(1, 40).Draw(t, "version")
			dim := 17 + 4*ver
			d := float64(dim)
			// where the four corner grid points (3.5,3.5) .. lie in the picture: any well-shaped quadrilateral
			mod := rapid.Float64Range(1, 8).Draw(t, "module")
			q, kind := genQuad(t, "img", rapid.Float64Range(0, 400).Draw(t, "cx"), rapid.Float64Range(0, 400).Draw(t, "cy"), 2*mod*d)
			if !wellShaped(q) {
				t.Skip("not well shaped")
			}
			cs := QTCase{Dim: dim, TL: [2]float64{q[0], q[1]}, TR: [2]float64{q[2], q[3]}, BL: [2]float64{q[6], q[7]}}
			withAlign := ver >= 2 && rapid.IntRange(0, 3).Draw(t, "align") != 0
			frac := false
			if withAlign {
				corners := [8]float64{3.5, 3.5, d - 3.5, 3.5, d - 3.5, d - 3.5, 3.5, d - 3.5}
				co, ok := solveProjective(corners, q)
				if !ok {
					t.Skip("degenerate")
				}
				ax, ay, ok := evalF(co, d-6.5, d-6.5)
				if !ok {
					t.Skip("degenerate")
				}
				// the centre that was found: within half a module of the ideal place, at any sub-pixel position
				ax += rapid.Float64Range(-0.5, 0.5).Draw(t, "jx") * mod * 0.5
				ay += rapid.Float64Range(-0.5, 0.5).Draw(t, "jy") * mod * 0.5
				if rapid.IntRange(0, 4).Draw(t, "whole") == 0 {
					ax, ay = math.Round(ax), math.Round(ay)
				}
				frac = ax != math.Floor(ax) || ay != math.Floor(ay)
				cs.Align = &[2]float64{ax, ay}
				dst := [8]float64{q[0], q[1], q[2], q[3], ax, ay, q[6], q[7]}
				if !wellShaped(dst) {
					t.Skip("not well shaped")
				}
			} else {
				dst := [8]float64{q[0], q[1], q[2], q[3], q[2] - q[0] + q[6], q[3] - q[1] + q[7], q[6], q[7]}
				if !wellShaped(dst) {
					t.Skip("not well shaped")
				}
			}
			for i := 0; i < 6; i++ {
				cs.Pts = append(cs.Pts, [2]float64{rapid.Float64Range(0.02, 0.98).Draw(t, "s"), rapid.Float64Range(0.02, 0.98).Draw(t, "t")})
			}
			raw, _ := json.Marshal(cs)
			c.Note("qr_detector_transform", fmt.Sprintf("quad=%s;alignment=%v;fractional_centre=%v", kind, withAlign, frac), withAlign, hx.Hash(raw), func() any { return cs })
			if err := c.Eval("qr_transform", cs); err != nil {
				t.Fatalf("%v", err)
			}
		})
		c.Rapid("sample_vs_extended_precision", c.N(1200, 40000), func(t *rapid.T) {
			cs := SCase{ImgW: rapid.IntRange(20, 220).Draw(t, "w"), ImgH: rapid.IntRange(20, 220).Draw(t, "h")}
			cs.DimX = rapid.IntRange(1, 60).Draw(t, "dimx")
			cs.DimY = cs.DimX
			if rapid.IntRange(0, 3).Draw(t, "rect") == 0 {
				cs.DimY = rapid.IntRange(1, 60).Draw(t, "dimy")
			}
			if rapid.IntRange(0, 39).Draw(t, "big") == 0 {
				cs.DimX, cs.DimY = 177, 177
			}
			size := 0.9 * math.Min(float64(cs.ImgW), float64(cs.ImgH))
			var kind string
			cs.Dst, kind = genQuad(t, "dst", float64(cs.ImgW)/2, float64(cs.ImgH)/2, size*0.7)
			switch rapid.IntRange(0, 3).Draw(t, "img") {
			case 0:
				cs.Img = "black"
				// let black images also reach outside
				off := rapid.Float64Range(-40, 40).Draw(t, "shift")
				for i := 0; i < 4; i++ {
					cs.Dst[2*i] += off
				}
			case 1:
				cs.Img = fmt.Sprintf("checker:%d", rapid.IntRange(1, 9).Draw(t, "k"))
			default:
				cs.Img = fmt.Sprintf("noise:%d", rapid.Uint64().Draw(t, "seed"))
			}
			cl := "transform=" + kind
			dx, dy := float64(cs.DimX), float64(cs.DimY)
			rect := [8]float64{0, 0, dx, 0, dx, dy, 0, dy}
			switch rapid.IntRange(0, 5).Draw(t, "gridside") {
			case 0:
				// the same four correspondences listed from another corner / in the other direction
				r := rapid.IntRange(1, 3).Draw(t, "rot")
				rev := rapid.Bool().Draw(t, "rev")
				var s2, d2 [8]float64
				for i := 0; i < 4; i++ {
					j := (i + r) % 4
					if rev {
						j = (4 - i + r) % 4
					}
					s2[2*i], s2[2*i+1] = rect[2*j], rect[2*j+1]
					d2[2*i], d2[2*i+1] = cs.Dst[2*j], cs.Dst[2*j+1]
				}
				cs.Src, cs.Dst = &s2, d2
				cl += ";grid_side=relisted"
			case 1:
				// a general convex quadrilateral inside the grid as the grid-side reference
				q, k2 := genQuad(t, "gs", dx/2, dy/2, 0.9*math.Min(dx, dy))
				cs.Src = &q
				cl += ";grid_side=" + k2
			}
			if cs.Img == "black" && rapid.IntRange(0, 2).Draw(t, "twist") == 0 {
				// a twisted (self-intersecting) image-side quadrilateral, as a misdetected symbol gives:
				// whatever comes back must still be made of image pixels only
				i, j := 0, 1
				if rapid.Bool().Draw(t, "twistpair") {
					i, j = 1, 2
				}
				cs.Dst[2*i], cs.Dst[2*j] = cs.Dst[2*j], cs.Dst[2*i]
				cs.Dst[2*i+1], cs.Dst[2*j+1] = cs.Dst[2*j+1], cs.Dst[2*i+1]
				cl += ";twisted"
				if rapid.Bool().Draw(t, "crop") {
					// crop the image so that the farthest sample point lies within one pixel beyond
					// the right or bottom edge (a row's interior points can be there while its ends are inside)
					src := rect
					if cs.Src != nil {
						src = *cs.Src
					}
					if co, ok := solveProjective(src, cs.Dst); ok {
						maxX, maxY := 0.0, 0.0
						for y := 0; y < cs.DimY; y++ {
							for x := 0; x < cs.DimX; x++ {
								if u, v, ok := evalF(co, float64(x)+0.5, float64(y)+0.5); ok {
									maxX, maxY = math.Max(maxX, u), math.Max(maxY, v)
								}
							}
						}
						if rapid.Bool().Draw(t, "cropx") {
							if maxX >= 5 && maxX < 400 {
								cs.ImgW = int(maxX)
								cl += ";cropped_to_excursion"
							}
						} else if maxY >= 5 && maxY < 400 {
							cs.ImgH = int(maxY)
							cl += ";cropped_to_excursion"
						}
					}
				}
			}
			raw, _ := json.Marshal(cs)
			if cs.Img == "black" {
				cl += ";all_black"
			}
			c.Note("sample_vs_extended_precision", cl, kind == "perspective" || kind == "rotated" || cs.Img == "black", hx.Hash(raw), func() any { return cs })
			if err := c.Eval("sample", cs); err != nil {
				t.Fatalf("%v", err)
			}
		})
		// nudge: rows whose first / last points fall into each edge strip, on all four sides
		idx := 0
		for _, w := range []int{7, 32, 40} {
			for _, h := range []int{5, 33} {
				for side := 0; side < 4; side++ {
					for _, end := range []string{"first", "last", "both"} {
						for _, strip := range []float64{-1.0, -1.5, -1.999, 0.0, 0.4, 0.999, 1.0, 1.5, 2.5, -2.0, -3.5} {
							for npts := 1; npts <= 6; npts++ {
								for depth := 1; depth <= 3; depth++ {
									if depth > 1 && npts < 2*depth {
										continue
									}
									idx++
									if !c.Mine(idx) {
										continue
									}
									// a row of npts points along the side's normal direction... build a straight line
									pts := make([]float64, 0, 2*npts)
									for i := 0; i < npts; i++ {
										// inside coordinates
										x := 1.5 + float64(i)*(float64(w)-3)/float64(npts)
										y := 1.5 + float64(i)*(float64(h)-3)/float64(npts)
										pts = append(pts, x, y)
									}
									put := func(i int) {
										// strip is the distance outside: value v means coordinate = edge + v (right/bottom) or -v... mapped per side
										switch side {
										case 0: // left: x = -strip' where strip in [-?]. use x = strip-ish below zero
											pts[2*i] = -math.Abs(strip) - 0.0001*float64(i)
											if strip >= 0 && strip < 1 {
												pts[2*i] = -strip // (-1, 0]: truncates to 0 (inside)
											}
										case 1: // right
											pts[2*i] = float64(w) + strip
										case 2: // top
											pts[2*i+1] = -math.Abs(strip) - 0.0001*float64(i)
											if strip >= 0 && strip < 1 {
												pts[2*i+1] = -strip
											}
										default: // bottom
											pts[2*i+1] = float64(h) + strip
										}
									}
									// the first / last `depth` points of the row lie in the strip (a prefix / suffix)
									for k := 0; k < depth; k++ {
										if end == "first" || end == "both" {
											put(k)
										}
										if (end == "last" || end == "both") && npts > 1 {
											put(npts - 1 - k)
										}
									}
									cs := NCase{W: w, H: h, Points: pts}
									nt := false
									for i := 0; i+1 < len(pts); i += 2 {
										x, y := int(pts[i]), int(pts[i+1])
										if x == -1 || x == w || y == -1 || y == h {
											nt = true
										}
									}
									cl := fmt.Sprintf("side=%d;end=%s;points_in_strip_per_end=%d", side, end, depth)
									c.Note("nudge_rules_all_sides", cl, nt, hx.HashS("n", fmt.Sprint(w, h, pts)), func() any { return cs })
									if !c.Enum("nudge_rules_all_sides", "nudge", cs, nil) {
										break
									}
								}
							}
						}
					}
				}
			}
		}
		c.SetExhaustive("nudge_rules_all_sides", true)

		// edge strips through real sampling (translations)
		c.Rapid("sampling_edge_strips", c.N(2500, 80000), func(t *rapid.T) {
			cs := EdgeCase{W: rapid.IntRange(8, 70).Draw(t, "w"), H: rapid.IntRange(8, 70).Draw(t, "h"), Seed: rapid.Uint64().Draw(t, "seed")}
			cs.Dim = rapid.IntRange(1, 8).Draw(t, "dim")
			if cs.Dim > cs.W-2 {
				cs.Dim = cs.W - 2
			}
			if cs.Dim > cs.H-2 {
				cs.Dim = cs.H - 2
			}
			frac := rapid.SampledFrom([]float64{0, 0.25, 0.49, -0.25, -0.49}).Draw(t, "frac")
			// choose which edge(s) the grid straddles
			edgeX := rapid.SampledFrom([]string{"in", "left", "right", "far"}).Draw(t, "ex")
			edgeY := rapid.SampledFrom([]string{"in", "top", "bottom", "far"}).Draw(t, "ey")
			pos := func(edge string, n int) float64 {
				switch edge {
				case "left":
					return -1.5 + frac // first centre at -1+frac: in [-1.49,-0.51] -> truncates to -1 or 0
				case "right":
					return float64(n-cs.Dim) + 0.5 + frac // last centre at n+frac
				case "far":
					if rapid.Bool().Draw(t, "farside") {
						return -2.6 + frac
					}
					return float64(n-cs.Dim) + 1.6 + frac
				}
				return float64(rapid.IntRange(1, n-cs.Dim-1).Draw(t, "inpos")) + frac
			}
			cs.OffX, cs.OffY = pos(edgeX, cs.W), pos(edgeY, cs.H)
			sl := "straight"
			if rapid.Bool().Draw(t, "slanted") {
				// slanted rows / columns: only part of a row lies in the strip
				cs.ShX = rapid.SampledFrom([]float64{0, 0.07, -0.07, 0.19, -0.19}).Draw(t, "shx")
				cs.ShY = rapid.SampledFrom([]float64{0.07, -0.07, 0.19, -0.19, 0.31, -0.31}).Draw(t, "shy")
				sl = "slanted"
			}
			raw, _ := json.Marshal(cs)
			c.Note("sampling_edge_strips", "x="+edgeX+";y="+edgeY+";"+sl, edgeX != "in" || edgeY != "in", hx.Hash(raw), func() any { return cs })
			if err := c.Eval("edge", cs); err != nil {
				t.Fatalf("%v", err)
			}
		})
	})
}
