// C01: QR Code: what is written is what is read (all versions, levels, masks, modes).
package c01

import (
	"encoding/json"
	"fmt"
	"strconv"
	"strings"
	"testing"
	"unicode/utf8"

	"github.com/makiuchi-d/gozxing"
	"github.com/makiuchi-d/gozxing/qrcode"
	"github.com/makiuchi-d/gozxing/qrcode/decoder"
	"github.com/makiuchi-d/gozxing/qrcode/encoder"
	"golang.org/x/text/encoding/japanese"
	"pgregory.net/rapid"

	"verif/internal/hx"
	"verif/internal/qrref"
	"verif/internal/qrx"
)

type Case struct {
	Text    string `json:"text"`
	Level   int    `json:"level"`
	VHint   int    `json:"version_hint"` // 0 none
	MHint   int    `json:"mask_hint"`    // -1 none
	Charset string `json:"charset"`      // "" none
	Margin  int    `json:"margin"`       // 0: no hint (default 4)
	ReqW    int    `json:"req_w"`
	ReqH    int    `json:"req_h"`
	Image   bool   `json:"image_path"`
	// StrHints: hint values given in their string form ("7" for 7, "H" for the level), which the writer accepts alike
	StrHints bool `json:"string_hints,omitempty"`
}

// modeOf replicates the standard-level mode rule the property describes:
// digits -> numeric, 45-char set -> alphanumeric, Shift_JIS hint with only
// double-byte Kanji -> Kanji, everything else byte.
func modeOf(text, charset string) int {
	if charset == "Shift_JIS" && text != "" {
		all := true
		set := kanjiSet()
		for _, r := range text {
			if !set[r] {
				all = false
				break
			}
		}
		if all {
			return qrref.Kanji
		}
	}
	digits, alnum := true, true
	for i := 0; i < len(text); i++ {
		c := text[i]
		if c < '0' || c > '9' {
			digits = false
			if qrref.AlnumIndex(c) < 0 {
				alnum = false
			}
		}
	}
	switch {
	case digits:
		return qrref.Numeric
	case alnum:
		return qrref.Alnum
	}
	return qrref.Byte
}

var kset map[rune]bool

func kanjiSet() map[rune]bool {
	if kset == nil {
		kset = map[rune]bool{}
		for _, r := range qrx.KanjiRunes() {
			kset[r] = true
		}
	}
	return kset
}

// encodedLen returns (mode, character count, header bits) or ok=false if the
// text is not representable in the hinted charset.
func encodedLen(text, charset string) (mode, n, hdr int, ok bool) {
	mode = modeOf(text, charset)
	switch mode {
	case qrref.Kanji:
		return mode, utf8.RuneCountInString(text), 0, true
	case qrref.Byte:
		if charset != "" {
			hdr = 12
		}
		switch charset {
		case "", "UTF-8":
			return mode, len(text), hdr, true
		case "ISO-8859-1":
			for _, r := range text {
				if r > 0xFF {
					return mode, 0, hdr, false
				}
			}
			return mode, utf8.RuneCountInString(text), hdr, true
		case "Shift_JIS":
			b, err := japanese.ShiftJIS.NewEncoder().Bytes([]byte(text))
			if err != nil {
				return mode, 0, hdr, false
			}
			back, err := japanese.ShiftJIS.NewDecoder().Bytes(b)
			if err != nil || string(back) != text {
				return mode, 0, hdr, false
			}
			return mode, len(b), hdr, true
		}
		return mode, 0, hdr, false
	}
	return mode, len(text), 0, true
}

func hintsOf(c Case) map[gozxing.EncodeHintType]interface{} {
	h := map[gozxing.EncodeHintType]interface{}{}
	h[gozxing.EncodeHintType_ERROR_CORRECTION] = qrx.LibLevel(c.Level)
	if c.VHint > 0 {
		h[gozxing.EncodeHintType_QR_VERSION] = c.VHint
	}
	if c.MHint >= 0 {
		h[gozxing.EncodeHintType_QR_MASK_PATTERN] = c.MHint
	}
	if c.Charset != "" {
		h[gozxing.EncodeHintType_CHARACTER_SET] = c.Charset
	}
	if c.Margin > 0 {
		h[gozxing.EncodeHintType_MARGIN] = c.Margin
	}
	if c.StrHints {
		h[gozxing.EncodeHintType_ERROR_CORRECTION] = qrref.LevelNames[c.Level]
		for _, k := range []gozxing.EncodeHintType{gozxing.EncodeHintType_QR_VERSION, gozxing.EncodeHintType_QR_MASK_PATTERN, gozxing.EncodeHintType_MARGIN} {
			if v, ok := h[k].(int); ok {
				h[k] = strconv.Itoa(v)
			}
		}
	}
	return h
}

func show(s string) string {
	if len(s) > 80 {
		return fmt.Sprintf("%q...(%d bytes)", s[:80], len(s))
	}
	return fmt.Sprintf("%q", s)
}

func check(raw json.RawMessage) error {
	var c Case
	if err := json.Unmarshal(raw, &c); err != nil {
		return fmt.Errorf("hx: %v", err)
	}
	mode, n, hdr, ok := encodedLen(c.Text, c.Charset)
	if !ok || n == 0 {
		return fmt.Errorf("hx: case outside the domain (not representable)")
	}
	fits := false
	if c.VHint > 0 {
		fits = qrref.Fits(mode, n, c.VHint, c.Level, hdr)
	} else {
		fits = qrref.MinVersion(mode, n, c.Level, hdr) > 0
	}
	if !fits {
		return fmt.Errorf("hx: case outside the domain (does not fit)")
	}
	desc := fmt.Sprintf("text=%s mode=%s n=%d level=%s vhint=%d mhint=%d charset=%q", show(c.Text), qrref.ModeNames[mode], n, qrref.LevelNames[c.Level], c.VHint, c.MHint, c.Charset)
	h := hintsOf(c)
	if !c.Image {
		code, e := encoder.Encoder_encode(c.Text, qrx.LibLevel(c.Level), h)
		if e != nil {
			return fmt.Errorf("encoding failed although the text fits: %v [%s]", e, desc)
		}
		if c.VHint > 0 && code.GetVersion().GetVersionNumber() != c.VHint {
			return fmt.Errorf("forced version %d, symbol has version %d [%s]", c.VHint, code.GetVersion().GetVersionNumber(), desc)
		}
		if c.MHint >= 0 && code.GetMaskPattern() != c.MHint {
			return fmt.Errorf("forced mask %d, symbol has mask %d [%s]", c.MHint, code.GetMaskPattern(), desc)
		}
		res, err := decoder.NewDecoder().Decode(qrx.ByteMatrixToBits(code.GetMatrix()), nil)
		if err != nil {
			return fmt.Errorf("decoding the produced module matrix failed: %v [%s]", err, desc)
		}
		if res.GetText() != c.Text {
			return fmt.Errorf("decoded text %s differs from the encoded text [%s]", show(res.GetText()), desc)
		}
		if res.GetECLevel() != qrref.LevelNames[c.Level] {
			return fmt.Errorf("decoded ec level %q, encoded %s [%s]", res.GetECLevel(), qrref.LevelNames[c.Level], desc)
		}
		return nil
	}
	bm, err := qrcode.NewQRCodeWriter().Encode(c.Text, gozxing.BarcodeFormat_QR_CODE, c.ReqW, c.ReqH, h)
	if err != nil {
		return fmt.Errorf("QRCodeWriter.Encode failed although the text fits: %v [%s]", err, desc)
	}
	bmp, err := gozxing.NewBinaryBitmapFromImage(bm)
	if err != nil {
		return fmt.Errorf("NewBinaryBitmapFromImage: %v", err)
	}
	res, err := qrcode.NewQRCodeReader().Decode(bmp, map[gozxing.DecodeHintType]interface{}{gozxing.DecodeHintType_PURE_BARCODE: true})
	if err != nil {
		return fmt.Errorf("pure-barcode read of the rendered %dx%d image (requested %dx%d, margin %d) failed: %v [%s]", bm.GetWidth(), bm.GetHeight(), c.ReqW, c.ReqH, c.Margin, err, desc)
	}
	if res.GetText() != c.Text {
		return fmt.Errorf("image path: decoded text %s differs [%s]", show(res.GetText()), desc)
	}
	if res.GetBarcodeFormat() != gozxing.BarcodeFormat_QR_CODE {
		return fmt.Errorf("image path: format %v [%s]", res.GetBarcodeFormat(), desc)
	}
	if ec, _ := res.GetResultMetadata()[gozxing.ResultMetadataType_ERROR_CORRECTION_LEVEL].(string); ec != qrref.LevelNames[c.Level] {
		return fmt.Errorf("image path: ERROR_CORRECTION_LEVEL metadata %v, encoded %s [%s]", res.GetResultMetadata()[gozxing.ResultMetadataType_ERROR_CORRECTION_LEVEL], qrref.LevelNames[c.Level], desc)
	}
	return nil
}

// History: several encodes and reads through ONE QRCodeWriter, ONE QRCodeReader and ONE
// Decoder instance, with reads that fail in between; every step must behave as on fresh instances.
type HStep struct {
	Case  Case   `json:"case"`
	Noise string `json:"noise,omitempty"` // "", blank, damaged: read this before the step's own symbol
}
type History struct {
	Steps []HStep `json:"steps"`
}

func checkHistory(raw json.RawMessage) error {
	var h History
	if err := json.Unmarshal(raw, &h); err != nil {
		return fmt.Errorf("hx: %v", err)
	}
	w, r, d := qrcode.NewQRCodeWriter(), qrcode.NewQRCodeReader(), decoder.NewDecoder()
	pure := map[gozxing.DecodeHintType]interface{}{gozxing.DecodeHintType_PURE_BARCODE: true}
	for i, st := range h.Steps {
		c := st.Case
		mode, n, hdr, ok := encodedLen(c.Text, c.Charset)
		if !ok || n == 0 || (c.VHint > 0 && !qrref.Fits(mode, n, c.VHint, c.Level, hdr)) || (c.VHint == 0 && qrref.MinVersion(mode, n, c.Level, hdr) <= 0) {
			return fmt.Errorf("hx: step outside the domain")
		}
		desc := fmt.Sprintf("step %d of %d on one writer/reader/decoder: text=%s level=%s vhint=%d mhint=%d charset=%q requested %dx%d margin %d after noise %q", i+1, len(h.Steps), show(c.Text), qrref.LevelNames[c.Level], c.VHint, c.MHint, c.Charset, c.ReqW, c.ReqH, c.Margin, st.Noise)
		hh := hintsOf(c)
		bm, err := w.Encode(c.Text, gozxing.BarcodeFormat_QR_CODE, c.ReqW, c.ReqH, hh)
		if err != nil {
			return fmt.Errorf("reused QRCodeWriter failed although the text fits: %v [%s]", err, desc)
		}
		fresh, err := qrcode.NewQRCodeWriter().Encode(c.Text, gozxing.BarcodeFormat_QR_CODE, c.ReqW, c.ReqH, hintsOf(c))
		if err != nil {
			return fmt.Errorf("fresh QRCodeWriter failed although the text fits: %v [%s]", err, desc)
		}
		if bm.GetWidth() != fresh.GetWidth() || bm.GetHeight() != fresh.GetHeight() || bm.String() != fresh.String() {
			return fmt.Errorf("reused writer produced a different image (%dx%d) than a fresh one (%dx%d) [%s]", bm.GetWidth(), bm.GetHeight(), fresh.GetWidth(), fresh.GetHeight(), desc)
		}
		code, e := encoder.Encoder_encode(c.Text, qrx.LibLevel(c.Level), hh)
		if e != nil {
			return fmt.Errorf("encoding failed although the text fits: %v [%s]", e, desc)
		}
		bits := qrx.ByteMatrixToBits(code.GetMatrix())
		if st.Noise != "" {
			nz, _ := gozxing.NewBitMatrix(bm.GetWidth(), bm.GetHeight())
			nb, _ := gozxing.NewBitMatrix(bits.GetWidth(), bits.GetHeight())
			if st.Noise == "damaged" {
				// the symbol with its lower half blanked: far beyond the correction capacity
				for y := 0; y < bm.GetHeight()/2; y++ {
					for x := 0; x < bm.GetWidth(); x++ {
						if bm.Get(x, y) {
							nz.Set(x, y)
						}
					}
				}
				for y := 0; y < bits.GetHeight()/2; y++ {
					for x := 0; x < bits.GetWidth(); x++ {
						if bits.Get(x, y) {
							nb.Set(x, y)
						}
					}
				}
			}
			nbmp, _ := gozxing.NewBinaryBitmapFromImage(nz)
			r.Decode(nbmp, pure) // outcome irrelevant
			r.Decode(nbmp, nil)
			d.Decode(nb, nil)
		}
		res, err2 := d.Decode(bits, nil)
		if err2 != nil {
			return fmt.Errorf("reused Decoder failed on the produced module matrix: %v [%s]", err2, desc)
		}
		if res.GetText() != c.Text || res.GetECLevel() != qrref.LevelNames[c.Level] {
			return fmt.Errorf("reused Decoder read %s at level %q [%s]", show(res.GetText()), res.GetECLevel(), desc)
		}
		bmp, _ := gozxing.NewBinaryBitmapFromImage(bm)
		rr, err := r.Decode(bmp, pure)
		if err != nil {
			return fmt.Errorf("reused QRCodeReader failed on the rendered %dx%d image: %v [%s]", bm.GetWidth(), bm.GetHeight(), err, desc)
		}
		if rr.GetText() != c.Text || rr.GetBarcodeFormat() != gozxing.BarcodeFormat_QR_CODE {
			return fmt.Errorf("reused QRCodeReader read %s [%s]", show(rr.GetText()), desc)
		}
		if ec, _ := rr.GetResultMetadata()[gozxing.ResultMetadataType_ERROR_CORRECTION_LEVEL].(string); ec != qrref.LevelNames[c.Level] {
			return fmt.Errorf("reused QRCodeReader: ERROR_CORRECTION_LEVEL metadata %q, encoded %s [%s]", ec, qrref.LevelNames[c.Level], desc)
		}
	}
	return nil
}

// --------------------------------------------------------------- generators

var utf8Pools = [][]rune{
	[]rune("éüñßÆøÅç«»¡¿£¥©®±µ¶·"),               // 2-byte, Latin-1 range
	[]rune("αβγδεζηθλμπσωΩΔБГДЖЗИЙЛПФЦЧШЩЪЫЭЮЯ"), // 2-byte
	[]rune("漢字仮名交じり文日本語中文한국어テスト"),                // 3-byte
	[]rune("ｱｲｳｴｵｶｷｸｹｺ"),                         // half-width katakana
	[]rune("😀🚀🎉𝄞𐍈"),                              // 4-byte
	[]rune("abcXYZ 019-_.,;:!?"),                 // ascii
	[]rune("\ufeff\u00a0\u3000\u200b"),           // BOM-like and odd spaces
}

func genText(class string, n int, rng *hx.Rng) string {
	var sb strings.Builder
	switch class {
	case "numeric":
		return qrx.Payload(qrref.Numeric, n, rng, 0)
	case "alnum":
		return qrx.Payload(qrref.Alnum, n, rng, 0)
	case "kanji":
		return qrx.Payload(qrref.Kanji, n, rng, 0)
	case "ascii":
		return qrx.Payload(qrref.Byte, n, rng, 0)
	case "utf8":
		// n = byte budget
		sb.WriteByte('a')
		for sb.Len() < n {
			pool := utf8Pools[rng.Intn(len(utf8Pools))]
			r := pool[rng.Intn(len(pool))]
			if sb.Len()+utf8.RuneLen(r) > n {
				sb.WriteByte('z')
				continue
			}
			sb.WriteRune(r)
		}
		return sb.String()
	case "latin1all":
		// n characters U+0000..U+00FF, every byte value reachable
		for i := 0; i < n; i++ {
			sb.WriteRune(rune(rng.Intn(256)))
		}
		s := sb.String()
		if modeOf(s, "ISO-8859-1") != qrref.Byte {
			return "é" + s[utf8.RuneLen([]rune(s)[0]):]
		}
		return s
	case "sjismixed":
		// n = byte budget in Shift_JIS: ascii (1) and kanji (2)
		ks := qrx.KanjiRunes()
		sb.WriteByte('a')
		used := 1
		for used < n {
			if rng.Bool() && used+2 <= n {
				sb.WriteRune(ks[rng.Intn(len(ks))])
				used += 2
			} else {
				sb.WriteByte("abcdefXYZ0123 ,.-"[rng.Intn(17)])
				used++
			}
		}
		return sb.String()
	}
	panic("bad class")
}

var classes = []string{"numeric", "alnum", "ascii", "utf8", "latin1all", "kanji", "sjismixed"}

func classMode(class string) (mode int, charsets []string) {
	switch class {
	case "numeric":
		return qrref.Numeric, []string{"", "", "UTF-8", "ISO-8859-1", "Shift_JIS"}
	case "alnum":
		return qrref.Alnum, []string{"", "", "UTF-8", "ISO-8859-1", "Shift_JIS"}
	case "ascii":
		return qrref.Byte, []string{"", "", "UTF-8", "ISO-8859-1"}
	case "utf8":
		return qrref.Byte, []string{"", "", "UTF-8"}
	case "latin1all":
		return qrref.Byte, []string{"ISO-8859-1"}
	case "kanji":
		return qrref.Kanji, []string{"Shift_JIS"}
	case "sjismixed":
		return qrref.Byte, []string{"Shift_JIS"}
	}
	panic("bad class")
}

func gen(t *rapid.T) (Case, string) {
	class := rapid.SampledFrom(classes).Draw(t, "class")
	mode, css := classMode(class)
	c := Case{Level: rapid.IntRange(0, 3).Draw(t, "level"), MHint: -1}
	c.Charset = rapid.SampledFrom(css).Draw(t, "charset")
	hdr := 0
	if mode == qrref.Byte && c.Charset != "" {
		hdr = 12
	}
	// target version: small versions favoured, class boundaries over-weighted
	var v int
	switch rapid.IntRange(0, 9).Draw(t, "vkind") {
	case 0:
		v = rapid.SampledFrom([]int{9, 10, 26, 27, 40, 1}).Draw(t, "vb")
	case 1, 2:
		v = rapid.IntRange(1, 40).Draw(t, "v")
	default:
		v = rapid.IntRange(1, 12).Draw(t, "vs")
	}
	if rapid.IntRange(0, 2).Draw(t, "forcev") == 0 {
		c.VHint = v
	}
	if rapid.IntRange(0, 2).Draw(t, "forcem") == 0 {
		c.MHint = rapid.IntRange(0, 7).Draw(t, "mask")
	}
	capN := qrref.Capacity(mode, v, c.Level, hdr)
	if capN < 1 {
		t.Skip("nothing fits")
	}
	var n int
	lenClass := ""
	switch rapid.IntRange(0, 5).Draw(t, "lenkind") {
	case 0:
		n, lenClass = capN, "len=cap"
	case 1:
		n, lenClass = capN-1, "len=cap-1"
	case 2:
		n, lenClass = rapid.IntRange(1, min(capN, 12)).Draw(t, "nsmall"), "len=small"
	default:
		n, lenClass = rapid.IntRange(1, capN).Draw(t, "n"), "len=free"
	}
	if n < 1 {
		n = 1
	}
	rng := hx.NewRng(rapid.Uint64().Draw(t, "payload"))
	c.Text = genText(class, n, rng)
	if rapid.IntRange(0, 3).Draw(t, "margin") == 0 {
		c.Margin = rapid.IntRange(4, 12).Draw(t, "m")
	}
	imgP := 5
	if v > 20 {
		imgP = 12
	}
	if rapid.IntRange(0, imgP).Draw(t, "path") == 0 {
		c.Image = true
		nat := qrref.Size(v) + 8
		switch rapid.IntRange(0, 3).Draw(t, "sizekind") {
		case 0:
		case 1:
			c.ReqW, c.ReqH = rapid.IntRange(0, 3*nat).Draw(t, "w"), rapid.IntRange(0, 3*nat).Draw(t, "h")
		case 2:
			s := rapid.IntRange(1, 3).Draw(t, "s")
			c.ReqW, c.ReqH = s*nat+rapid.IntRange(0, 5).Draw(t, "dw"), s*nat+rapid.IntRange(0, 5).Draw(t, "dh")
		default:
			c.ReqW = rapid.IntRange(0, 3*nat).Draw(t, "w1")
			c.ReqH = c.ReqW
		}
	}
	if c.Image && rapid.IntRange(0, 2).Draw(t, "strhints") == 0 {
		c.StrHints = true
	}
	vc := "v1-9"
	if v >= 27 {
		vc = "v27-40"
	} else if v >= 10 {
		vc = "v10-26"
	}
	cl := "class=" + class + ";" + vc + ";" + lenClass + ";charset=" + c.Charset
	if c.VHint > 0 {
		cl += ";forced_version"
	} else {
		cl += ";auto_version"
	}
	if c.MHint >= 0 {
		cl += ";forced_mask"
	}
	if c.StrHints {
		cl += ";hints_as_strings"
	}
	if c.Image {
		cl += ";path=image"
	} else {
		cl += ";path=matrix"
	}
	return c, cl
}

func sample(c Case) any {
	s := c
	if len(s.Text) > 80 {
		s.Text = s.Text[:80] + fmt.Sprintf("...(%d bytes)", len(c.Text))
	}
	return s
}

func TestCheck(t *testing.T) {
	hx.Main(t, "C01", func(c *hx.Ctx) {
		c.Register("qr_roundtrip", check)
		c.Register("qr_history", checkHistory)
	}, func(c *hx.Ctx) {
		// grid: all 1280 (version, level, mask) configurations with boundary payloads
		gridClasses := []string{"numeric", "alnum", "ascii", "kanji", "latin1all", "utf8", "sjismixed"}
		idx := 0
		for v := 1; v <= 40; v++ {
			for l := 0; l < 4; l++ {
				for m := 0; m < 8; m++ {
					idx++
					if !c.Mine(idx) {
						continue
					}
					per := c.N(1, 4)
					for k := 0; k < per; k++ {
						class := gridClasses[(idx+k+int(c.P.Seed))%len(gridClasses)]
						mode, css := classMode(class)
						cs := Case{Level: l, VHint: v, MHint: m, Charset: css[len(css)-1]}
						if class == "ascii" || class == "numeric" || class == "alnum" || class == "utf8" {
							cs.Charset = ""
						}
						hdr := 0
						if mode == qrref.Byte && cs.Charset != "" {
							hdr = 12
						}
						capN := qrref.Capacity(mode, v, l, hdr)
						n := capN - (idx+k)%2
						if n < 1 {
							continue
						}
						lc := []string{"len=cap", "len=cap-1"}[(idx+k)%2]
						cs.Text = genText(class, n, hx.NewRng(c.Seed("grid", idx*8+k)))
						cs.Image = c.Thorough() && v <= 25 && k == 3
						raw, _ := json.Marshal(cs)
						vc := "v1-9"
						if v >= 27 {
							vc = "v27-40"
						} else if v >= 10 {
							vc = "v10-26"
						}
						c.Note("grid_all_configs", "class="+class+";"+vc+";"+lc+";level="+qrref.LevelNames[l]+fmt.Sprintf(";mask=%d", m), true, hx.Hash(raw), func() any { return sample(cs) })
						c.Enum("grid_all_configs", "qr_roundtrip", cs, shrink)
					}
				}
			}
		}
		c.SetExhaustive("grid_all_configs", false)

		// every length 1..N per content class and level (magic-length defects), automatic version and mask
		{
			maxN := map[string][2]int{"numeric": {400, 2500}, "alnum": {300, 1600}, "ascii": {200, 1100}, "utf8": {200, 1100}, "latin1all": {200, 1000}, "kanji": {120, 650}, "sjismixed": {200, 900}}
			idx := 0
			for _, class := range classes {
				mode, css := classMode(class)
				lim := maxN[class][0]
				if c.Thorough() {
					lim = maxN[class][1]
				}
				for n := 1; n <= lim; n++ {
					idx++
					if !c.Mine(idx) {
						continue
					}
					l := (n + idx) % 4
					cs := Case{Level: l, MHint: -1, Charset: css[len(css)-1]}
					if class == "ascii" || class == "numeric" || class == "alnum" || class == "utf8" {
						cs.Charset = ""
					}
					hdr := 0
					if mode == qrref.Byte && cs.Charset != "" {
						hdr = 12
					}
					cs.Text = genText(class, n, hx.NewRng(c.Seed("len-"+class, n)))
					if _, cnt, _, ok := encodedLen(cs.Text, cs.Charset); !ok || qrref.MinVersion(mode, cnt, l, hdr) == 0 {
						continue
					}
					raw, _ := json.Marshal(cs)
					c.Note("length_sweep", "class="+class, true, hx.Hash(raw), func() any { return sample(cs) })
					if !c.Enum("length_sweep", "qr_roundtrip", cs, shrink) {
						break
					}
				}
			}
			c.SetExhaustive("length_sweep", false)
		}

		// every character value inside otherwise numeric / alphanumeric text: the mode-selection
		// tables must classify each of them correctly, or the text comes back changed
		{
			idx := 0
			for v := 0; v < 0x180; v++ {
				for _, shape := range []string{"AB%sCD", "12%s34", "%s", "%s%s", "A%s"} {
					for _, level := range []int{0, 3} {
						idx++
						if !c.Mine(idx) {
							continue
						}
						text := strings.ReplaceAll(shape, "%s", string(rune(v)))
						cs := Case{Text: text, Level: level, MHint: -1, Image: idx%4 == 0}
						if _, n, _, ok := encodedLen(cs.Text, cs.Charset); !ok || n == 0 {
							continue
						}
						raw, _ := json.Marshal(cs)
						cl := "other"
						switch {
						case v >= '0' && v <= '9':
							cl = "digit"
						case strings.ContainsRune(qrx.AlnumChars, rune(v)):
							cl = "alphanumeric"
						case v < 0x80:
							cl = "ascii_outside_the_45"
						}
						c.Note("mode_tables_all_chars", cl, true, hx.Hash(raw), func() any { return cs })
						if !c.Enum("mode_tables_all_chars", "qr_roundtrip", cs, nil) {
							break
						}
					}
				}
			}
			c.SetExhaustive("mode_tables_all_chars", true)
		}

		c.Rapid("instance_histories", c.N(150, 3000), func(t *rapid.T) {
			var h History
			n := rapid.IntRange(2, 4).Draw(t, "steps")
			noisy := 0
			levels, versions := map[int]bool{}, map[int]bool{}
			for len(h.Steps) < n {
				cs, _ := gen(t)
				if _, m, _, ok := encodedLen(cs.Text, cs.Charset); !ok || m == 0 {
					t.Skip("not representable")
				}
				cs.Image = true
				if cs.ReqW > 400 || cs.ReqH > 400 {
					cs.ReqW, cs.ReqH = 0, 0
				}
				st := HStep{Case: cs, Noise: rapid.SampledFrom([]string{"", "", "blank", "damaged"}).Draw(t, "noise")}
				if st.Noise != "" {
					noisy++
				}
				levels[cs.Level] = true
				versions[cs.VHint] = true
				h.Steps = append(h.Steps, st)
			}
			cl := fmt.Sprintf("steps=%d", n)
			if noisy > 0 {
				cl += ";failed_reads_between"
			}
			if len(levels) > 1 {
				cl += ";level_changes"
			}
			raw, _ := json.Marshal(h)
			c.Note("instance_histories", cl, noisy > 0 || len(levels) > 1 || len(versions) > 1, hx.Hash(raw), func() any {
				hs := History{}
				for _, st := range h.Steps {
					st.Case = sample(st.Case).(Case)
					hs.Steps = append(hs.Steps, st)
				}
				return hs
			})
			if err := c.Eval("qr_history", h); err != nil {
				t.Fatalf("%v", err)
			}
		})
		c.Rapid("random", c.N(1200, 20000), func(t *rapid.T) {
			cs, cl := gen(t)
			if _, n, _, ok := encodedLen(cs.Text, cs.Charset); !ok || n == 0 {
				t.Skip("not representable")
			}
			raw, _ := json.Marshal(cs)
			c.Note("random", cl, true, hx.Hash(raw), func() any { return sample(cs) })
			if err := c.Eval("qr_roundtrip", cs); err != nil {
				t.Fatalf("%v", err)
			}
		})
	})
}

func shrink(v any) []any {
	c := v.(Case)
	var out []any
	rs := []rune(c.Text)
	if len(rs) > 1 {
		for _, k := range []int{len(rs) / 2, len(rs) - 1} {
			s := c
			s.Text = string(rs[:k])
			if _, n, _, ok := encodedLen(s.Text, s.Charset); ok && n > 0 && modeOf(s.Text, s.Charset) == modeOf(c.Text, c.Charset) {
				out = append(out, s)
			}
		}
	}
	return out
}
