// C15: character sets and ECI: text survives in every supported encoding.
package c15

import (
	"bytes"
	"encoding/json"
	"errors"
	"fmt"
	"strings"
	"testing"

	"github.com/makiuchi-d/gozxing"
	"github.com/makiuchi-d/gozxing/common"
	"github.com/makiuchi-d/gozxing/qrcode"
	"github.com/makiuchi-d/gozxing/qrcode/decoder"
	"golang.org/x/text/encoding"
	"golang.org/x/text/encoding/charmap"
	"golang.org/x/text/encoding/japanese"
	"golang.org/x/text/encoding/korean"
	"golang.org/x/text/encoding/simplifiedchinese"
	"golang.org/x/text/encoding/traditionalchinese"
	"golang.org/x/text/encoding/unicode"
	"pgregory.net/rapid"

	"verif/internal/hx"
	"verif/internal/qrref"
	"verif/internal/qrx"
)

// cs: the AIM ECI assignment list and name table, typed independently of the library.
type cs struct {
	name    string   // primary name
	aliases []string // other accepted names
	values  []int    // AIM ECI assignment numbers designating this charset
	enc     encoding.Encoding
	single  bool
	all     bool // every Unicode text is representable
}

var ascii = charmap.ISO8859_1 // encoder used for US-ASCII checks is handled specially (bytes < 0x80)

var charsets = []cs{
	{"Cp437", nil, []int{0, 2}, charmap.CodePage437, true, false},
	{"ISO-8859-1", []string{"ISO8859_1"}, []int{1, 3}, charmap.ISO8859_1, true, false},
	{"ISO-8859-2", []string{"ISO8859_2"}, []int{4}, charmap.ISO8859_2, true, false},
	{"ISO-8859-3", []string{"ISO8859_3"}, []int{5}, charmap.ISO8859_3, true, false},
	{"ISO-8859-4", []string{"ISO8859_4"}, []int{6}, charmap.ISO8859_4, true, false},
	{"ISO-8859-5", []string{"ISO8859_5"}, []int{7}, charmap.ISO8859_5, true, false},
	{"ISO-8859-7", []string{"ISO8859_7"}, []int{9}, charmap.ISO8859_7, true, false},
	{"ISO-8859-9", []string{"ISO8859_9"}, []int{11}, charmap.ISO8859_9, true, false},
	{"ISO-8859-13", []string{"ISO8859_13"}, []int{15}, charmap.ISO8859_13, true, false},
	{"ISO-8859-15", []string{"ISO8859_15"}, []int{17}, charmap.ISO8859_15, true, false},
	{"ISO-8859-16", []string{"ISO8859_16"}, []int{18}, charmap.ISO8859_16, true, false},
	{"Shift_JIS", []string{"SJIS"}, []int{20}, japanese.ShiftJIS, false, false},
	{"windows-1250", []string{"Cp1250"}, []int{21}, charmap.Windows1250, true, false},
	{"windows-1251", []string{"Cp1251"}, []int{22}, charmap.Windows1251, true, false},
	{"windows-1252", []string{"Cp1252"}, []int{23}, charmap.Windows1252, true, false},
	{"windows-1256", []string{"Cp1256"}, []int{24}, charmap.Windows1256, true, false},
	{"UTF-16BE", []string{"UnicodeBig", "UnicodeBigUnmarked"}, []int{25}, unicode.UTF16(unicode.BigEndian, unicode.IgnoreBOM), false, true},
	{"UTF-8", []string{"UTF8"}, []int{26}, unicode.UTF8, false, true},
	{"ASCII", []string{"US-ASCII"}, []int{27, 170}, nil, true, false},
	{"Big5", nil, []int{28}, traditionalchinese.Big5, false, false},
	{"GB18030", []string{"GB2312", "EUC_CN", "GBK"}, []int{29}, simplifiedchinese.GB18030, false, true},
	{"EUC-KR", []string{"EUC_KR"}, []int{30}, korean.EUCKR, false, false},
}

func csByName(n string) *cs {
	for i := range charsets {
		if charsets[i].name == n {
			return &charsets[i]
		}
	}
	return nil
}

// encode returns the bytes of text in the charset, ok=false if not representable
// (x/text round trip is the oracle for representability).
func (c *cs) encode(text string) ([]byte, bool) {
	if c.enc == nil { // US-ASCII
		for i := 0; i < len(text); i++ {
			if text[i] >= 0x80 {
				return nil, false
			}
		}
		return []byte(text), true
	}
	b, err := c.enc.NewEncoder().Bytes([]byte(text))
	if err != nil {
		return nil, false
	}
	back, err := c.enc.NewDecoder().Bytes(b)
	if err != nil || string(back) != text {
		return nil, false
	}
	return b, true
}

// repertoire of a single-byte set: the runes of all byte values that round-trip.
func (c *cs) repertoire() []rune {
	var out []rune
	for b := 0; b < 256; b++ {
		if c.enc == nil {
			if b < 0x80 {
				out = append(out, rune(b))
			}
			continue
		}
		u, err := c.enc.NewDecoder().Bytes([]byte{byte(b)})
		if err != nil {
			continue
		}
		rs := []rune(string(u))
		if len(rs) != 1 || rs[0] == 0xFFFD {
			continue
		}
		if enc, ok := c.encode(string(rs)); ok && len(enc) == 1 && enc[0] == byte(b) {
			out = append(out, rs[0])
		}
	}
	return out
}

// ------------------------------------------------------------------ round trip

type RTCase struct {
	Charset string `json:"charset"` // primary name in the table ("" = no hint)
	Name    string `json:"name"`    // the name / alias given as hint
	Text    string `json:"text"`
	// ReadHint, when set, is a decode-side CHARACTER_SET hint naming ANOTHER charset: the
	// designator in the symbol decides, the hint only applies to un-designated segments
	ReadHint string `json:"read_hint,omitempty"`
}

func isFormat(err error) bool {
	var fe gozxing.FormatException
	return errors.As(err, &fe)
}

func checkRT(raw json.RawMessage) error {
	var c RTCase
	if err := json.Unmarshal(raw, &c); err != nil {
		return fmt.Errorf("hx: %v", err)
	}
	hints := map[gozxing.EncodeHintType]interface{}{}
	var set *cs
	var want []byte
	representable := true
	if c.Charset != "" {
		set = csByName(c.Charset)
		if set == nil {
			return fmt.Errorf("hx: charset %q", c.Charset)
		}
		hints[gozxing.EncodeHintType_CHARACTER_SET] = c.Name
		want, representable = set.encode(c.Text)
	}
	desc := fmt.Sprintf("charset hint %q (%s), text %q", c.Name, c.Charset, clip(c.Text))
	bm, err := qrcode.NewQRCodeWriter().Encode(c.Text, gozxing.BarcodeFormat_QR_CODE, 0, 0, hints)
	if !representable {
		if err == nil {
			return fmt.Errorf("text not representable in the hinted charset was accepted [%s]", desc)
		}
		return nil
	}
	if err != nil {
		return fmt.Errorf("writer refused representable text: %v [%s]", err, desc)
	}
	bmp, _ := gozxing.NewBinaryBitmapFromImage(bm)
	res, err := qrcode.NewQRCodeReader().Decode(bmp, map[gozxing.DecodeHintType]interface{}{gozxing.DecodeHintType_PURE_BARCODE: true})
	if err != nil {
		return fmt.Errorf("read failed: %v [%s]", err, desc)
	}
	if res.GetText() != c.Text {
		return fmt.Errorf("decoded %q [%s]", clip(res.GetText()), desc)
	}
	if set == nil {
		return nil
	}
	if c.ReadHint != "" {
		bmp2, _ := gozxing.NewBinaryBitmapFromImage(bm)
		r2, err := qrcode.NewQRCodeReader().Decode(bmp2, map[gozxing.DecodeHintType]interface{}{
			gozxing.DecodeHintType_PURE_BARCODE: true, gozxing.DecodeHintType_CHARACTER_SET: c.ReadHint})
		if err != nil {
			return fmt.Errorf("read with decode hint CHARACTER_SET=%q failed: %v [%s]", c.ReadHint, err, desc)
		}
		if r2.GetText() != c.Text {
			return fmt.Errorf("decoded %q when read with decode hint CHARACTER_SET=%q: the hint overrode the symbol's designator [%s]", clip(r2.GetText()), c.ReadHint, desc)
		}
	}
	rawBytes := res.GetRawBytes()
	if len(rawBytes) < 2 {
		return fmt.Errorf("no raw bytes [%s]", desc)
	}
	switch rawBytes[0] >> 4 {
	case 7:
		v := int(rawBytes[0]&0x0F)<<4 | int(rawBytes[1]>>4)
		if v&0x80 != 0 {
			return fmt.Errorf("multi-byte ECI designator for a value < 128 [%s]", desc)
		}
		ok := false
		for _, a := range set.values {
			if a == v {
				ok = true
			}
		}
		if !ok {
			return fmt.Errorf("symbol carries ECI %06d, the AIM assignment for %s is %v [%s]", v, set.name, set.values, desc)
		}
		segs, _ := res.GetResultMetadata()[gozxing.ResultMetadataType_BYTE_SEGMENTS].([][]byte)
		if len(segs) != 1 || !bytes.Equal(segs[0], want) {
			return fmt.Errorf("byte segment % x, %s encoding of the text is % x [%s]", segs, set.name, want, desc)
		}
	case 1, 2:
		// numeric / alphanumeric text needs no designator
		for i := 0; i < len(c.Text); i++ {
			if strings.IndexByte(qrx.AlnumChars, c.Text[i]) < 0 {
				return fmt.Errorf("byte-mode text without ECI designator although a charset was hinted [%s]", desc)
			}
		}
	case 8:
		if set.name != "Shift_JIS" {
			return fmt.Errorf("Kanji mode used for charset %s [%s]", set.name, desc)
		}
	default:
		return fmt.Errorf("first segment has mode nibble %#x: hinted byte-mode text must start with an ECI header [%s]", rawBytes[0]>>4, desc)
	}
	return nil
}

func clip(s string) string {
	if len(s) > 60 {
		return s[:60] + "..."
	}
	return s
}

// ------------------------------------------------------------------ registry

type RegCase struct {
	Value int    `json:"value"` // -2: name lookup case
	Name  string `json:"name,omitempty"`
}

func valueOwner(v int) *cs {
	for i := range charsets {
		for _, a := range charsets[i].values {
			if a == v {
				return &charsets[i]
			}
		}
	}
	return nil
}

func checkReg(raw json.RawMessage) error {
	var c RegCase
	if err := json.Unmarshal(raw, &c); err != nil {
		return fmt.Errorf("hx: %v", err)
	}
	if c.Value == -2 {
		// every name / alias resolves to the same entry and back
		var owner *cs
		for i := range charsets {
			if charsets[i].name == c.Name {
				owner = &charsets[i]
			}
			for _, a := range charsets[i].aliases {
				if a == c.Name {
					owner = &charsets[i]
				}
			}
		}
		e, ok := common.GetCharacterSetECIByName(c.Name)
		if owner == nil {
			if ok && e != nil {
				// names the table does not list are not constrained (IANA names are also registered)
				return nil
			}
			return nil
		}
		if !ok || e == nil {
			return fmt.Errorf("name %q is not registered (it names %s)", c.Name, owner.name)
		}
		if e.Name() != owner.name {
			return fmt.Errorf("name %q resolves to entry %q, expected %q", c.Name, e.Name(), owner.name)
		}
		byPrimary, ok2 := common.GetCharacterSetECIByName(e.Name())
		if !ok2 || byPrimary != e {
			return fmt.Errorf("entry reached by %q and by its own name %q differ", c.Name, e.Name())
		}
		if v, err := common.GetCharacterSetECIByValue(e.GetValue()); err != nil || v != e {
			return fmt.Errorf("entry %q: GetValue()=%d does not lead back to it", e.Name(), e.GetValue())
		}
		if back, ok3 := common.GetCharacterSetECI(e.GetCharset()); !ok3 || back != e {
			return fmt.Errorf("entry %q: GetCharacterSetECI(GetCharset()) does not lead back to it", e.Name())
		}
		found := false
		for _, a := range owner.values {
			if a == e.GetValue() {
				found = true
			}
		}
		if !found {
			return fmt.Errorf("entry %q has value %d, AIM assignment %v", e.Name(), e.GetValue(), owner.values)
		}
		return nil
	}
	e, err := common.GetCharacterSetECIByValue(c.Value)
	if c.Value < 0 || c.Value >= 900 {
		if err == nil {
			return fmt.Errorf("GetCharacterSetECIByValue(%d) returned no error for an out-of-range value", c.Value)
		}
		if !isFormat(err) {
			return fmt.Errorf("GetCharacterSetECIByValue(%d) error is not a FormatException: %v", c.Value, err)
		}
		return nil
	}
	if err != nil {
		return fmt.Errorf("GetCharacterSetECIByValue(%d) returned an error for an in-range value: %v", c.Value, err)
	}
	owner := valueOwner(c.Value)
	if owner == nil {
		if e != nil {
			return fmt.Errorf("ECI %06d is not assigned in the registry table but resolves to %q", c.Value, e.Name())
		}
		return nil
	}
	if e == nil {
		return fmt.Errorf("ECI %06d (%s) is not registered", c.Value, owner.name)
	}
	if e.Name() != owner.name {
		return fmt.Errorf("ECI %06d resolves to %q, AIM assignment is %s", c.Value, e.Name(), owner.name)
	}
	return nil
}

// ------------------------------------------------------------- ECI in streams

type StreamCase struct {
	ECI    int    `json:"eci"` // -1: no ECI segment
	Bytes  []byte `json:"bytes"`
	Hint   string `json:"hint,omitempty"`   // decode-side CHARACTER_SET hint
	Expect string `json:"expect,omitempty"` // expected text (when decodable)
	Form   int    `json:"form"`             // 0 shortest designator form, 2/3: forced 2- or 3-byte form
}

func bitWriter() (put func(v, n int), out func() []byte) {
	var bits []bool
	put = func(v, n int) {
		for i := n - 1; i >= 0; i-- {
			bits = append(bits, (v>>uint(i))&1 == 1)
		}
	}
	out = func() []byte {
		for len(bits)%8 != 0 {
			bits = append(bits, false)
		}
		b := make([]byte, len(bits)/8)
		for i, v := range bits {
			if v {
				b[i/8] |= 0x80 >> uint(i%8)
			}
		}
		return b
	}
	return
}

func checkStream(raw json.RawMessage) error {
	var c StreamCase
	if err := json.Unmarshal(raw, &c); err != nil {
		return fmt.Errorf("hx: %v", err)
	}
	put, out := bitWriter()
	if c.ECI >= 0 {
		put(7, 4)
		switch {
		case c.ECI < 128 && c.Form == 0:
			put(c.ECI, 8)
		case c.ECI < 16384 && c.Form != 3:
			put(0x8000|c.ECI, 16)
		default:
			put(0xC00000|c.ECI, 24)
		}
	}
	put(4, 4)
	put(len(c.Bytes), 8)
	for _, b := range c.Bytes {
		put(int(b), 8)
	}
	put(0, 4)
	stream := out()
	for len(stream) < 19 {
		stream = append(stream, 0xEC)
	}
	ver, _ := decoder.Version_GetVersionForNumber(1)
	var hints map[gozxing.DecodeHintType]interface{}
	if c.Hint != "" {
		hints = map[gozxing.DecodeHintType]interface{}{gozxing.DecodeHintType_CHARACTER_SET: c.Hint}
	}
	var res *common.DecoderResult
	var err error
	if e := hx.Safe(func() error {
		res, err = decoder.DecodedBitStreamParser_Decode(stream, ver, decoder.ErrorCorrectionLevel_L, hints)
		return nil
	}); e != nil {
		return fmt.Errorf("parser panicked on a stream with ECI %d, hint %q: %v", c.ECI, c.Hint, e)
	}
	if res == nil && err == nil {
		return fmt.Errorf("parser returned neither result nor error (ECI %d)", c.ECI)
	}
	if c.ECI >= 0 {
		owner := valueOwner(c.ECI)
		if c.ECI >= 900 {
			owner = nil
		}
		if owner == nil {
			if err == nil {
				return fmt.Errorf("stream with unregistered / out-of-range ECI %06d decoded to %q instead of a format error", c.ECI, res.GetText())
			}
			if !isFormat(err) {
				return fmt.Errorf("stream with unregistered ECI %06d: error is not a FormatException: %T %v", c.ECI, err, err)
			}
			return nil
		}
		if err != nil {
			return fmt.Errorf("stream with registered ECI %06d (%s) rejected: %v", c.ECI, owner.name, err)
		}
		if res.GetText() != c.Expect {
			return fmt.Errorf("stream with ECI %06d (%s), bytes % x decoded to %q, expected %q", c.ECI, owner.name, c.Bytes, res.GetText(), c.Expect)
		}
		return nil
	}
	// no ECI: decode-side hint must be honoured
	if err != nil {
		return fmt.Errorf("un-designated byte segment with CHARACTER_SET hint %q rejected: %v", c.Hint, err)
	}
	if res.GetText() != c.Expect {
		return fmt.Errorf("un-designated byte segment % x with CHARACTER_SET hint %q decoded to %q, expected %q", c.Bytes, c.Hint, res.GetText(), c.Expect)
	}
	// the same stream as a complete symbol, read upright and mirrored through the decoder: the hint
	// must reach the bit-stream parser on every path
	v := 1
	for v < 40 && qrref.DataCodewords(v, 0) < len(stream) {
		v++
	}
	if v >= 10 {
		return nil // the 8-bit count field used above belongs to versions 1-9
	}
	data := append([]byte(nil), stream...)
	for i := 0; len(data) < qrref.DataCodewords(v, 0); i++ {
		data = append(data, []byte{0xEC, 0x11}[i%2])
	}
	final, _ := qrref.Interleave(data, v, 0)
	m := qrref.Build(final, v, 0, len(c.Bytes)%8)
	for _, mirrored := range []bool{false, true} {
		bm, _ := gozxing.NewBitMatrix(m.N, m.N)
		for y := 0; y < m.N; y++ {
			for x := 0; x < m.N; x++ {
				if m.M[y][x] {
					if mirrored {
						bm.Set(y, x)
					} else {
						bm.Set(x, y)
					}
				}
			}
		}
		var r2 *common.DecoderResult
		var e2 error
		if e := hx.Safe(func() error { r2, e2 = decoder.NewDecoder().Decode(bm, hints); return nil }); e != nil {
			return e
		}
		if e2 != nil {
			return fmt.Errorf("symbol (mirrored=%v) carrying the un-designated byte segment % x not decoded: %v", mirrored, c.Bytes, e2)
		}
		if r2.GetText() != c.Expect {
			return fmt.Errorf("symbol (mirrored=%v) carrying the un-designated byte segment % x, read with CHARACTER_SET hint %q, decoded to %q, expected %q", mirrored, c.Bytes, c.Hint, r2.GetText(), c.Expect)
		}
	}
	return nil
}

// ---------------------------------------------------------------- generators

func multiByteText(set *cs, rng *hx.Rng, n int) string {
	var pool []rune
	switch set.name {
	case "Shift_JIS":
		pool = append(pool, qrx.KanjiRunes()...)
		for r := rune(0xFF61); r <= 0xFF9F; r++ {
			pool = append(pool, r)
		}
	case "Big5", "GB18030":
		for r := rune(0x4E00); r <= 0x9FA5; r += 7 {
			pool = append(pool, r)
		}
	case "EUC-KR":
		for r := rune(0xAC00); r <= 0xD7A3; r += 5 {
			pool = append(pool, r)
		}
	default: // UTF-8, UTF-16BE
		pool = []rune("éßдЖλΩ漢字한글テスト😀𝄞€")
	}
	if set.name == "GB18030" {
		pool = append(pool, []rune("é€𠀀😀дλ")...)
	}
	var sb strings.Builder
	sb.WriteByte('a') // forces byte mode
	for i := 0; i < n; i++ {
		for tries := 0; tries < 20; tries++ {
			r := pool[rng.Intn(len(pool))]
			if _, ok := set.encode(string(r)); ok {
				sb.WriteRune(r)
				break
			}
		}
		if rng.Intn(4) == 0 {
			sb.WriteByte("xyz 09-"[rng.Intn(7)])
		}
	}
	return sb.String()
}

func TestCheck(t *testing.T) {
	hx.Main(t, "C15", func(c *hx.Ctx) {
		c.Register("roundtrip", checkRT)
		c.Register("registry", checkReg)
		c.Register("stream", checkStream)
	}, func(c *hx.Ctx) {
		// (a) every charset x every name/alias: single-byte repertoires exhaustively, multi-byte sampled
		idx := 0
		for ci := range charsets {
			set := &charsets[ci]
			names := append([]string{set.name}, set.aliases...)
			for ni, name := range names {
				idx++
				if !c.Mine(idx) {
					continue
				}
				if set.single {
					rep := set.repertoire()
					c.Class("charset_roundtrip", fmt.Sprintf("repertoire_size[%s]", set.name), int64(len(rep)))
					for off := 0; off < len(rep); off += 40 {
						end := off + 40
						if end > len(rep) {
							end = len(rep)
						}
						text := "a" + string(rep[off:end])
						cs := RTCase{Charset: set.name, Name: name, Text: text}
						if other := charsets[(ci+1+off/40)%len(charsets)].name; other != set.name {
							cs.ReadHint = other
						}
						nonASCII := false
						for _, r := range text {
							if r >= 0x80 {
								nonASCII = true
							}
						}
						c.Note("charset_roundtrip", "charset="+set.name+fmt.Sprintf(";alias=%v;conflicting_read_hint=%v", ni > 0, cs.ReadHint != ""), nonASCII, hx.HashS(name, text), func() any { return cs })
						if !c.Enum("charset_roundtrip", "roundtrip", cs, nil) {
							break
						}
					}
				} else {
					rng := hx.NewRng(c.Seed("mb-"+name, 0))
					for k := 0; k < c.N(25, 400); k++ {
						cs := RTCase{Charset: set.name, Name: name, Text: multiByteText(set, rng, 1+rng.Intn(30))}
						if other := charsets[rng.Intn(len(charsets))].name; other != set.name && k%2 == 0 {
							cs.ReadHint = other
						}
						c.Note("charset_roundtrip", "charset="+set.name+fmt.Sprintf(";alias=%v;multibyte", ni > 0), true, hx.HashS(name, cs.Text), func() any { return cs })
						if !c.Enum("charset_roundtrip", "roundtrip", cs, nil) {
							break
						}
					}
					if set.name == "Shift_JIS" {
						// all-Kanji text may use Kanji mode
						ks := qrx.KanjiRunes()
						cs := RTCase{Charset: set.name, Name: name, Text: string([]rune{ks[5], ks[600], ks[3000]})}
						c.Note("charset_roundtrip", "charset=Shift_JIS;kanji_mode", true, hx.HashS(name, cs.Text), func() any { return cs })
						c.Enum("charset_roundtrip", "roundtrip", cs, nil)
					}
				}
				// text outside the repertoire must be refused
				if !set.all {
					for _, r := range []rune{0x20AC, 0x00E9, 0x0416, 0x6F22, 0x1F600, 0x0100, 0xD55C} {
						text := "ab" + string(r)
						if _, ok := set.encode(text); ok {
							continue
						}
						cs := RTCase{Charset: set.name, Name: name, Text: text}
						c.Note("charset_roundtrip", "charset="+set.name+";not_representable", true, hx.HashS(name, text), func() any { return cs })
						c.Enum("charset_roundtrip", "roundtrip", cs, nil)
					}
				}
			}
		}
		c.SetExhaustive("charset_roundtrip", false)

		// every double-byte code point of the Kanji-mode ranges (0x8140-0x9FFC, 0xE040-0xEBBF), in Kanji mode
		{
			ks := qrx.KanjiRunes()
			chunk := 60
			ci := 0
			for off := 0; off < len(ks); off += chunk {
				ci++
				if !c.Mine(ci) {
					continue
				}
				end := off + chunk
				if end > len(ks) {
					end = len(ks)
				}
				cs := RTCase{Charset: "Shift_JIS", Name: []string{"Shift_JIS", "SJIS"}[ci%2], Text: string(ks[off:end])}
				c.Note("kanji_mode_all_code_points", "", true, hx.HashS("kanji", cs.Text), func() any { return cs })
				if !c.Enum("kanji_mode_all_code_points", "roundtrip", cs, func(v any) []any {
					t := v.(RTCase)
					rs := []rune(t.Text)
					if len(rs) < 2 {
						return nil
					}
					a, b := t, t
					a.Text, b.Text = string(rs[:len(rs)/2]), string(rs[len(rs)/2:])
					return []any{a, b}
				}) {
					break
				}
			}
			c.SetExhaustive("kanji_mode_all_code_points", true)

			// Kanji-mode texts whose length crosses the character-count field widths (8, 10 and 12 bits
			// for versions 1-9, 10-26, 27-40) up to the 1817 characters of version 40-L
			for li, n := range []int{255, 256, 257, 1023, 1024, 1025, 1500, 1816, 1817} {
				ci++
				if !c.Mine(ci) {
					continue
				}
				rs := make([]rune, n)
				for i := range rs {
					rs[i] = ks[(i*131+li*17)%len(ks)]
				}
				cs := RTCase{Charset: "Shift_JIS", Name: "Shift_JIS", Text: string(rs)}
				c.Note("kanji_mode_long_texts", fmt.Sprintf("len=%d", n), true, hx.HashS("kanjilong", cs.Text), func() any {
					return RTCase{Charset: "Shift_JIS", Name: "Shift_JIS", Text: string(rs[:20]) + fmt.Sprintf("...(%d characters)", n)}
				})
				c.Enum("kanji_mode_long_texts", "roundtrip", cs, nil)
			}
			c.SetExhaustive("kanji_mode_long_texts", true)

			// ... and every double-byte Shift_JIS character OUTSIDE those ranges (lead bytes 0xEB-0xFC:
			// NEC / IBM extension rows), as all-double-byte text: Kanji mode cannot carry them, the
			// writer has to fall back to byte mode with the Shift_JIS designator
			var ext []rune
			seen := map[rune]bool{}
			for _, r := range ks {
				seen[r] = true
			}
			dec := japanese.ShiftJIS.NewDecoder()
			for lead := 0x81; lead <= 0xFC; lead++ {
				for trail := 0x40; trail <= 0xFC; trail++ {
					v := lead<<8 | trail
					if (v >= 0x8140 && v <= 0x9FFC) || (v >= 0xE040 && v <= 0xEBBF) {
						continue
					}
					out, err := dec.Bytes([]byte{byte(lead), byte(trail)})
					if err != nil {
						continue
					}
					rs := []rune(string(out))
					if len(rs) != 1 || rs[0] == 0xFFFD || seen[rs[0]] {
						continue
					}
					if b, err := qrx.SJIS(string(rs[0])); err != nil || len(b) != 2 {
						continue
					}
					seen[rs[0]] = true
					ext = append(ext, rs[0])
				}
			}
			c.Class("shift_jis_double_byte_outside_kanji_mode", "code_points", int64(len(ext)))
			for off := 0; off < len(ext); off += 12 {
				ci++
				if !c.Mine(ci) {
					continue
				}
				end := off + 12
				if end > len(ext) {
					end = len(ext)
				}
				cs := RTCase{Charset: "Shift_JIS", Name: []string{"Shift_JIS", "SJIS"}[ci%2], Text: string(ext[off:end])}
				if ci%3 == 0 {
					// mixed with Kanji-mode characters: still not Kanji mode
					cs.Text = string(ks[(off*7)%len(ks)]) + cs.Text + string(ks[(off*13)%len(ks)])
				}
				c.Note("shift_jis_double_byte_outside_kanji_mode", "", true, hx.HashS("sjisext", cs.Text), func() any { return cs })
				if !c.Enum("shift_jis_double_byte_outside_kanji_mode", "roundtrip", cs, nil) {
					break
				}
			}
			// each of them also next to one Kanji-mode character, in both orders (the all-Kanji test
			// walks the bytes in steps: lead and trail bytes must not be confused)
			for i, r := range ext {
				ci++
				if !c.Mine(ci) {
					continue
				}
				k := ks[(i*37)%len(ks)]
				for _, text := range []string{string([]rune{k, r}), string([]rune{r, k}), string([]rune{k, k, r})} {
					cs := RTCase{Charset: "Shift_JIS", Name: "Shift_JIS", Text: text}
					c.Note("shift_jis_double_byte_outside_kanji_mode", "next_to_a_kanji_mode_character", true, hx.HashS("sjisext2", text), func() any { return cs })
					if !c.Enum("shift_jis_double_byte_outside_kanji_mode", "roundtrip", cs, nil) {
						break
					}
				}
			}
			c.SetExhaustive("shift_jis_double_byte_outside_kanji_mode", true)
		}

		// (b) no hint: valid UTF-8 decodes as itself (adversarial for the guesser)
		c.Rapid("no_hint_utf8", c.N(1200, 60000), func(t *rapid.T) {
			pools := [][]rune{[]rune("ｱｲｳｴｵｶｷｸｹｺﾊﾟ"), []rune("«»¡¿·×÷°±²³µ¶"), []rune("éüñßÆøÅç"), []rune("漢字仮名日本語"), []rune("😀🚀𝄞"), []rune("abcXYZ 019"), []rune("\ufeff "), []rune("дЖλΩ")}
			n := rapid.IntRange(1, 30).Draw(t, "n")
			if rapid.Bool().Draw(t, "tiny") {
				n = rapid.IntRange(1, 3).Draw(t, "ntiny")
			}
			k := rapid.IntRange(1, 3).Draw(t, "npools")
			var sel [][]rune
			for i := 0; i < k; i++ {
				sel = append(sel, pools[rapid.IntRange(0, len(pools)-1).Draw(t, "pool")])
			}
			var sb strings.Builder
			for i := 0; i < n; i++ {
				p := sel[rapid.IntRange(0, len(sel)-1).Draw(t, "p")]
				sb.WriteRune(p[rapid.IntRange(0, len(p)-1).Draw(t, "r")])
			}
			cs := RTCase{Text: sb.String()}
			nonASCII := false
			for _, r := range cs.Text {
				if r >= 0x80 {
					nonASCII = true
				}
			}
			c.Note("no_hint_utf8", "", nonASCII, hx.HashS(cs.Text), func() any { return cs })
			if err := c.Eval("roundtrip", cs); err != nil {
				t.Fatalf("%v", err)
			}
		})

		// (c) registry laws for all values -5..1005 and all names
		for v := -5; v <= 1005; v++ {
			if c.Mine(v + 5) {
				cs := RegCase{Value: v}
				c.Note("registry_values_all", "", valueOwner(v) == nil || true, hx.HashS("v", fmt.Sprint(v)), func() any { return cs })
				c.Enum("registry_values_all", "registry", cs, nil)
			}
		}
		c.SetExhaustive("registry_values_all", true)
		for ci := range charsets {
			for _, n := range append([]string{charsets[ci].name}, charsets[ci].aliases...) {
				cs := RegCase{Value: -2, Name: n}
				if c.Mine(ci) {
					c.Note("registry_names_all", "", true, hx.HashS("n", n), func() any { return cs })
					c.Enum("registry_names_all", "registry", cs, nil)
				}
			}
		}
		c.SetExhaustive("registry_names_all", true)

		// (d) ECI numbers in streams: all 0..1100 in every designator form, sampled above
		idx = 0
		eciCase := func(v, form int) StreamCase {
			sc := StreamCase{ECI: v, Form: form, Bytes: []byte("Az09")}
			sc.Expect = "Az09"
			if o := valueOwner(v); o != nil && v < 900 {
				// a non-ASCII character of that charset, if it has one
				if o.single {
					for _, r := range o.repertoire() {
						if r >= 0x80 {
							if b, ok := o.encode("A" + string(r)); ok {
								sc.Bytes, sc.Expect = b, "A"+string(r)
							}
							break
						}
					}
				} else if o.name == "UTF-16BE" {
					sc.Bytes, sc.Expect = []byte{0, 'A', 0x30, 0x42}, "Aあ"
				} else if b, ok := o.encode("A漢"); ok {
					sc.Bytes, sc.Expect = b, "A漢"
				}
			}
			return sc
		}
		for v := 0; v <= 1100; v++ {
			for _, form := range []int{0, 2, 3} {
				idx++
				if !c.Mine(idx) {
					continue
				}
				sc := eciCase(v, form)
				c.Note("eci_numbers_streams", fmt.Sprintf("form=%d;registered=%v", form, valueOwner(v) != nil && v < 900), true, hx.HashS("eci", fmt.Sprint(v, form)), func() any { return sc })
				if !c.Enum("eci_numbers_streams", "stream", sc, nil) {
					break
				}
			}
		}
		rng := hx.NewRng(c.Seed("eci-high", 0))
		for k := 0; k < c.N(2000, 200000); k++ {
			v := 1100 + rng.Intn(999999-1100+1)
			if k%50 == 0 {
				v = []int{16383, 16384, 999999, 899, 900, 901, 127, 128}[k/50%8]
			}
			sc := eciCase(v, 0)
			c.Note("eci_numbers_streams", "high_values", true, hx.HashS("eci", fmt.Sprint(v, 0)), nil)
			if !c.Enum("eci_numbers_streams", "stream", sc, nil) {
				break
			}
		}
		c.SetExhaustive("eci_numbers_streams", false)

		// (e) decode-side CHARACTER_SET hint honoured for un-designated byte segments
		idx = 0
		for ci := range charsets {
			set := &charsets[ci]
			for _, name := range append([]string{set.name}, set.aliases...) {
				idx++
				if !c.Mine(idx) {
					continue
				}
				rng := hx.NewRng(c.Seed("hint-"+name, 0))
				for k := 0; k < c.N(6, 60); k++ {
					var text string
					if set.single {
						rep := set.repertoire()
						var sb strings.Builder
						for i := 0; i < 1+rng.Intn(10); i++ {
							sb.WriteRune(rep[rng.Intn(len(rep))])
						}
						text = sb.String()
					} else {
						text = multiByteText(set, rng, 1+rng.Intn(6))
					}
					b, ok := set.encode(text)
					if !ok || len(b) > 200 || len(b) == 0 {
						continue
					}
					sc := StreamCase{ECI: -1, Bytes: b, Hint: name, Expect: text}
					c.Note("decode_hint_honoured", "charset="+set.name, true, hx.HashS("hint", name, text), func() any { return sc })
					if !c.Enum("decode_hint_honoured", "stream", sc, nil) {
						break
					}
				}
			}
		}
		c.SetExhaustive("decode_hint_honoured", false)
	})
}
