// C18: independent readers and writers can run concurrently.
// The test binary is built with -race; race reports go to GORACE log files that
// the driver turns into violations. In addition every result of the concurrent
// phase is compared with the result of the same operation executed alone.
package c18

import (
	"encoding/json"
	"fmt"
	"hash/fnv"
	"runtime"
	"strings"
	"sync"
	"sync/atomic"
	"testing"
	"time"

	"github.com/makiuchi-d/gozxing"
	"github.com/makiuchi-d/gozxing/aztec"
	"github.com/makiuchi-d/gozxing/common"
	rs "github.com/makiuchi-d/gozxing/common/reedsolomon"
	"github.com/makiuchi-d/gozxing/datamatrix"
	"github.com/makiuchi-d/gozxing/oned"
	"github.com/makiuchi-d/gozxing/qrcode"
	qrdec "github.com/makiuchi-d/gozxing/qrcode/decoder"
	qrenc "github.com/makiuchi-d/gozxing/qrcode/encoder"
	"pgregory.net/rapid"

	"verif/internal/azref"
	"verif/internal/hx"
	"verif/internal/imgx"
	"verif/internal/onedx"
)

type Op struct {
	Kind  string `json:"k"`
	Seed  uint64 `json:"s"`
	Yield bool   `json:"y,omitempty"`
}

type Case struct {
	Procs   int    `json:"procs"`
	Workers [][]Op `json:"workers"`
	Stagger []int  `json:"stagger,omitempty"` // microseconds each worker waits after the barrier
}

var families = map[string]string{
	"qr_enc": "qr_tables+rs", "qr_rt": "qr_tables+rs", "qr_hint": "charsets", "dm_enc": "dm_tables", "dm_rt": "dm_tables+rs",
	"oned_rt": "oned_tables", "rs": "rs_fields", "eci": "charsets", "aztec": "rs_fields",
}

var opKinds = []string{"qr_enc", "qr_rt", "qr_hint", "qr_eci", "qr_cut45", "upcean_multi", "dm_enc", "dm_rt", "oned_rt", "rs", "eci", "aztec"}

func digestMatrix(bm *gozxing.BitMatrix) string {
	h := fnv.New64a()
	for y := 0; y < bm.GetHeight(); y++ {
		row := bm.GetRow(y, nil)
		for x := 0; x < bm.GetWidth(); x++ {
			if row.Get(x) {
				h.Write([]byte{1})
			} else {
				h.Write([]byte{0})
			}
		}
	}
	return fmt.Sprintf("%dx%d:%x", bm.GetWidth(), bm.GetHeight(), h.Sum64())
}

func text(rng *hx.Rng, n int, alpha string) string {
	b := make([]byte, n)
	for i := range b {
		b[i] = alpha[rng.Intn(len(alpha))]
	}
	return string(b)
}

func runeText(rng *hx.Rng, n int, alpha string) string {
	rs := []rune(alpha)
	b := make([]rune, n)
	for i := range b {
		b[i] = rs[rng.Intn(len(rs))]
	}
	return string(b)
}

var rsFields = []*rs.GenericGF{rs.GenericGF_QR_CODE_FIELD_256, rs.GenericGF_DATA_MATRIX_FIELD_256, rs.GenericGF_AZTEC_PARAM, rs.GenericGF_AZTEC_DATA_6, rs.GenericGF_AZTEC_DATA_10, rs.GenericGF_AZTEC_DATA_12}

// charset names that are NOT in the ECI table (resolved through the IANA index at decode time)
var hintNames = []string{"EUC-JP", "KOI8-R", "windows-1253", "windows-1254", "ISO-8859-6", "ISO-8859-8", "IBM866", "macintosh", "windows-1257", "KOI8-U", "ISO-8859-10", "windows-874"}

func caseVariant(s string, v uint64) string {
	b := []byte(s)
	for i := range b {
		if v&(1<<uint(i%60)) != 0 {
			if b[i] >= 'a' && b[i] <= 'z' {
				b[i] -= 32
			} else if b[i] >= 'A' && b[i] <= 'Z' {
				b[i] += 32
			}
		}
	}
	return string(b)
}

// run executes one operation on private instances and returns a digest of its outcome.
func run(op Op) string {
	rng := hx.NewRng(op.Seed)
	yield := func() {
		if op.Yield {
			runtime.Gosched()
		}
	}
	switch op.Kind {
	case "qr_enc":
		lv := []qrdec.ErrorCorrectionLevel{qrdec.ErrorCorrectionLevel_L, qrdec.ErrorCorrectionLevel_M, qrdec.ErrorCorrectionLevel_Q, qrdec.ErrorCorrectionLevel_H}[rng.Intn(4)]
		code, err := qrenc.Encoder_encode(text(rng, 1+rng.Intn(300), "ABCDEFGH0123456789 abc"), lv, nil)
		yield()
		if err != nil {
			return "err:" + err.Error()
		}
		return fmt.Sprintf("v%d m%d %s", code.GetVersion().GetVersionNumber(), code.GetMaskPattern(), code.GetMatrix().String()[:40])
	case "qr_rt":
		s := text(rng, 1+rng.Intn(120), "ABCDEFGH0123456789 abcé")
		bm, err := qrcode.NewQRCodeWriter().Encode(s, gozxing.BarcodeFormat_QR_CODE, 0, 0, nil)
		if err != nil {
			return "err:" + err.Error()
		}
		yield()
		bmp, _ := gozxing.NewBinaryBitmapFromImage(imgx.Scale(bm, 1+rng.Intn(2)))
		r, err := qrcode.NewQRCodeReader().Decode(bmp, nil)
		if err != nil {
			return "err:" + err.Error()
		}
		return digestMatrix(bm) + "|" + r.GetText()
	case "qr_cut45":
		// a QR symbol turned by 45 degrees whose corner opposite the top-left finder pattern is cut off
		// by the picture border: the three finder patterns are found, the sampling grid leaves the
		// picture (a failing path inside the grid sampler), next to ordinary detector-based reads
		s := text(rng, 5+rng.Intn(30), "ABCDEFGH0123456789")
		code, err := qrenc.Encoder_encode(s, qrdec.ErrorCorrectionLevel_M, nil)
		if err != nil {
			return "err:" + err.Error()
		}
		m := code.GetMatrix()
		n := m.GetWidth()
		sc := 4.0 + float64(rng.Intn(3))
		diag := float64(n) * sc * 1.4143
		w := int(diag) + 40
		cut := 0.55 + 0.1*float64(rng.Intn(3)) // keep this share of the diamond's height
		if rng.Intn(4) == 0 {
			cut = 1.1 // control: the whole symbol is in the picture
		}
		h := int(diag*cut) + 20
		img, _ := gozxing.NewBitMatrix(w, h)
		cx, cy := float64(w)/2, 20+diag/2
		for py := 0; py < h; py++ {
			for px := 0; px < w; px++ {
				dx, dy := float64(px)+0.5-cx, float64(py)+0.5-cy
				// rotate back by 45 degrees
				u := (dx+dy)*0.70710678/sc + float64(n)/2
				v := (dy-dx)*0.70710678/sc + float64(n)/2
				if u >= 0 && v >= 0 && int(u) < n && int(v) < n && m.Get(int(u), int(v)) == 1 {
					img.Set(px, py)
				}
			}
		}
		yield()
		bmp, _ := gozxing.NewBinaryBitmapFromImage(img)
		r, derr := qrcode.NewQRCodeReader().Decode(bmp, nil)
		if derr != nil {
			return "err:" + derr.Error()
		}
		return "read:" + r.GetText()
	case "qr_hint":
		// byte-mode symbol without ECI (ASCII + Latin-1 bytes), decoded with a CHARACTER_SET hint resolved at decode time
		name := caseVariant(hintNames[rng.Intn(len(hintNames))], rng.U64())
		bm, err := qrcode.NewQRCodeWriter().Encode("abc"+text(rng, 1+rng.Intn(20), "xyz 0189"), gozxing.BarcodeFormat_QR_CODE, 0, 0, nil)
		if err != nil {
			return "err:" + err.Error()
		}
		bmp, _ := gozxing.NewBinaryBitmapFromImage(bm)
		yield()
		r, err := qrcode.NewQRCodeReader().Decode(bmp, map[gozxing.DecodeHintType]interface{}{gozxing.DecodeHintType_CHARACTER_SET: name, gozxing.DecodeHintType_PURE_BARCODE: true})
		if err != nil {
			return "err"
		}
		return r.GetText()
	case "qr_eci":
		// designated byte segments: the reader resolves the charset through the shared ECI table
		sets := []struct{ name, alpha string }{
			{"UTF-16BE", "abcé漢字Ж€"}, {"UTF-16BE", "xyzüπ日本"}, {"UTF-8", "abcé漢字Ж€😀"}, {"Shift_JIS", "abcｱｲ漢字"},
			{"GB18030", "abc中文é"}, {"Big5", "abc中文"}, {"EUC-KR", "abc한국어"}, {"ISO-8859-7", "abcαβγ"}, {"windows-1251", "abcЖЗИ"}}
		set := sets[rng.Intn(len(sets))]
		s := "a" + runeText(rng, 1+rng.Intn(25), set.alpha)
		bm, err := qrcode.NewQRCodeWriter().Encode(s, gozxing.BarcodeFormat_QR_CODE, 0, 0, map[gozxing.EncodeHintType]interface{}{gozxing.EncodeHintType_CHARACTER_SET: set.name})
		if err != nil {
			return "err:" + err.Error()
		}
		yield()
		bmp, _ := gozxing.NewBinaryBitmapFromImage(bm)
		r, err := qrcode.NewQRCodeReader().Decode(bmp, map[gozxing.DecodeHintType]interface{}{gozxing.DecodeHintType_PURE_BARCODE: true})
		if err != nil {
			return "err:" + err.Error()
		}
		return digestMatrix(bm) + "|" + fmt.Sprint(r.GetText() == s) + r.GetText()
	case "dm_enc", "dm_rt":
		n := 1 + rng.Intn(60)
		if rng.Intn(3) == 0 {
			n = 260 + rng.Intn(1200) // multi-block symbols
		}
		s := text(rng, n, "ABCDEFGHIJKLMNOP QRSTUVWXYZ0123456789abc")
		bm, err := datamatrix.NewDataMatrixWriter().Encode(s, gozxing.BarcodeFormat_DATA_MATRIX, 0, 0, nil)
		if err != nil {
			return "err:" + err.Error()
		}
		yield()
		if op.Kind == "dm_enc" {
			return digestMatrix(bm)
		}
		bmp, _ := gozxing.NewBinaryBitmapFromImage(bm)
		r, err := datamatrix.NewDataMatrixReader().Decode(bmp, map[gozxing.DecodeHintType]interface{}{gozxing.DecodeHintType_PURE_BARCODE: true})
		if err != nil {
			return "err:" + err.Error()
		}
		return digestMatrix(bm) + "|" + r.GetText()
	case "upcean_multi":
		// a private multi-format UPC/EAN reader built from hints that name all, one or no UPC/EAN format
		names := []string{"EAN13", "EAN8", "UPCA", "UPCE"}
		s := onedx.SymByName(names[rng.Intn(len(names))])
		content, _, _ := onedx.Content(s.Name, rng)
		bm, err := s.Writer().Encode(content, s.Format, 0, 10, map[gozxing.EncodeHintType]interface{}{gozxing.EncodeHintType_MARGIN: 14})
		if err != nil {
			return "err:" + err.Error()
		}
		var hints map[gozxing.DecodeHintType]interface{}
		switch rng.Intn(4) {
		case 0:
		case 1:
			hints = map[gozxing.DecodeHintType]interface{}{gozxing.DecodeHintType_TRY_HARDER: true}
		case 2:
			hints = map[gozxing.DecodeHintType]interface{}{gozxing.DecodeHintType_POSSIBLE_FORMATS: []gozxing.BarcodeFormat{gozxing.BarcodeFormat_QR_CODE}}
		default:
			hints = map[gozxing.DecodeHintType]interface{}{gozxing.DecodeHintType_POSSIBLE_FORMATS: []gozxing.BarcodeFormat{gozxing.BarcodeFormat_EAN_13, gozxing.BarcodeFormat_UPC_A, gozxing.BarcodeFormat_EAN_8, gozxing.BarcodeFormat_UPC_E}}
		}
		rd := oned.NewMultiFormatUPCEANReader(hints)
		yield()
		bmp, _ := gozxing.NewBinaryBitmapFromImage(bm)
		r, err := rd.Decode(bmp, hints)
		if err != nil {
			return "err:" + err.Error()
		}
		return digestMatrix(bm) + "|" + r.GetText() + "|" + r.GetBarcodeFormat().String()
	case "oned_rt":
		names := []string{"EAN13", "EAN8", "UPCA", "ITF", "CODE39", "CODE93", "CODE128", "CODABAR", "UPCE", "CODE39X"}
		s := onedx.SymByName(names[rng.Intn(len(names))])
		content, _, _ := onedx.Content(s.Name, rng)
		bm, err := s.Writer().Encode(content, s.Format, 0, 10, map[gozxing.EncodeHintType]interface{}{gozxing.EncodeHintType_MARGIN: 14})
		if err != nil {
			return "err:" + err.Error()
		}
		yield()
		bmp, _ := gozxing.NewBinaryBitmapFromImage(bm)
		r, err := s.Reader().Decode(bmp, nil)
		if err != nil {
			return "err:" + err.Error()
		}
		return digestMatrix(bm) + "|" + r.GetText()
	case "rs":
		f := rsFields[rng.Intn(len(rsFields))]
		size := f.GetSize()
		n := 3 + rng.Intn(min(size-3, 60))
		r := 1 + rng.Intn(n-1)
		if r > 40 {
			r = 40
		}
		word := make([]int, n)
		for i := 0; i < n-r; i++ {
			word[i] = rng.Intn(size)
		}
		enc := rs.NewReedSolomonEncoder(f)
		if err := enc.Encode(word, r); err != nil {
			return "err:" + err.Error()
		}
		yield()
		orig := fmt.Sprint(word)
		for e := 0; e < r/2; e++ {
			word[rng.Intn(n)] ^= 1 + rng.Intn(size-1)
		}
		if err := rs.NewReedSolomonDecoder(f).Decode(word, r); err != nil {
			return "err:" + err.Error()
		}
		return orig + "|" + fmt.Sprint(word)
	case "eci":
		var sb strings.Builder
		for i := 0; i < 20; i++ {
			v := rng.Intn(40)
			e, err := common.GetCharacterSetECIByValue(v)
			if err == nil && e != nil {
				sb.WriteString(e.Name())
				if b, ok := common.GetCharacterSetECI(e.GetCharset()); ok {
					sb.WriteString(fmt.Sprint(b.GetValue()))
				}
			}
			yield()
			if n, ok := common.GetCharacterSetECIByName([]string{"UTF8", "SJIS", "Cp437", "GB2312", "x"}[rng.Intn(5)]); ok {
				sb.WriteString(n.Name())
			}
		}
		return sb.String()
	case "aztec":
		specs := azref.AllSpecs()
		spec := specs[rng.Intn(14)]
		var toks []azref.Token
		nb := spec.TotalBits() * (30 + rng.Intn(40)) / 100
		if spec.Compact && nb > 64*spec.WordSize()*7/10 {
			nb = 64 * spec.WordSize() * 7 / 10
		}
		for b := 0; b < nb; b += 5 {
			toks = append(toks, azref.Token{Kind: "char", Code: 2 + rng.Intn(26)})
		}
		bits, want, _ := azref.Encode(toks)
		sym, ok := azref.Build(bits, spec, 3)
		if !ok {
			return "nofit"
		}
		bm, _ := gozxing.NewBitMatrix(sym.Size, sym.Size)
		for y := 0; y < sym.Size; y++ {
			for x := 0; x < sym.Size; x++ {
				if sym.M[y][x] {
					bm.Set(x, y)
				}
			}
		}
		yield()
		img := imgx.Pad(imgx.Scale(bm, 3), 9, 9, 9, 9)
		bmp, _ := gozxing.NewBinaryBitmapFromImage(img)
		r, err := aztec.NewAztecReader().Decode(bmp, nil)
		if err != nil {
			return "err"
		}
		return fmt.Sprint(r.GetText() == want) + r.GetText()
	}
	return "unknown"
}

var overlapSeen int64

func check(raw json.RawMessage) error {
	var c Case
	if err := json.Unmarshal(raw, &c); err != nil {
		return fmt.Errorf("hx: %v", err)
	}
	prev := runtime.GOMAXPROCS(c.Procs)
	defer runtime.GOMAXPROCS(prev)
	results := make([][]string, len(c.Workers))
	var inflight sync.Map // family -> *int64
	counter := func(f string) *int64 {
		v, _ := inflight.LoadOrStore(f, new(int64))
		return v.(*int64)
	}
	var overlap int64
	start := make(chan struct{})
	var wg sync.WaitGroup
	for w := range c.Workers {
		results[w] = make([]string, len(c.Workers[w]))
		wg.Add(1)
		go func(w int) {
			defer wg.Done()
			<-start
			if w < len(c.Stagger) && c.Stagger[w] > 0 {
				time.Sleep(time.Duration(c.Stagger[w]) * time.Microsecond)
			}
			for i, op := range c.Workers[w] {
				fam := counter(families[op.Kind])
				if atomic.AddInt64(fam, 1) > 1 {
					atomic.StoreInt64(&overlap, 1)
				}
				results[w][i] = safeRun(op)
				atomic.AddInt64(fam, -1)
			}
		}(w)
	}
	close(start)
	done := make(chan struct{})
	go func() { wg.Wait(); close(done) }()
	select {
	case <-done:
	case <-time.After(hx.HangLimit() * 6):
		return fmt.Errorf("%sconcurrent phase of %d workers did not finish", hx.HangPrefix+"120s: ", len(c.Workers))
	}
	atomic.StoreInt64(&overlapSeen, overlap)
	// the same operations alone, AFTER the concurrent phase (lazily initialised state must not be warmed up first)
	for w := range c.Workers {
		for i, op := range c.Workers[w] {
			want := safeRun(op)
			if results[w][i] != want {
				return fmt.Errorf("worker %d op %d (%s seed %d) returned %q concurrently but %q when run alone", w, i, op.Kind, op.Seed, clip(results[w][i]), clip(want))
			}
		}
	}
	return nil
}

func safeRun(op Op) (out string) {
	defer func() {
		if r := recover(); r != nil {
			out = fmt.Sprintf("panic: %v", r)
		}
	}()
	return run(op)
}

func clip(s string) string {
	if len(s) > 100 {
		return s[:100] + "..."
	}
	return s
}

func TestCheck(t *testing.T) {
	hx.Main(t, "C18", func(c *hx.Ctx) {
		c.Register("concurrent", check)
	}, func(c *hx.Ctx) {
		c.Rapid("concurrent_workloads", c.N(40, 500), func(t *rapid.T) {
			cs := Case{Procs: rapid.SampledFrom([]int{2, 4, 8, 16}).Draw(t, "procs")}
			k := rapid.IntRange(2, 16).Draw(t, "workers")
			if rapid.IntRange(0, 5).Draw(t, "many") == 0 {
				k = rapid.IntRange(17, 64).Draw(t, "manyworkers")
			}
			// a few op kinds per configuration so that the same table family is hit by several workers
			nk := rapid.IntRange(1, 3).Draw(t, "nkinds")
			var kinds []string
			for i := 0; i < nk; i++ {
				kinds = append(kinds, rapid.SampledFrom(opKinds).Draw(t, "kind"))
			}
			for w := 0; w < k; w++ {
				n := rapid.IntRange(1, 5).Draw(t, "nops")
				var ops []Op
				for i := 0; i < n; i++ {
					ops = append(ops, Op{Kind: kinds[rapid.IntRange(0, len(kinds)-1).Draw(t, "pick")], Seed: rapid.Uint64().Draw(t, "seed"), Yield: rapid.Bool().Draw(t, "yield")})
				}
				cs.Workers = append(cs.Workers, ops)
				cs.Stagger = append(cs.Stagger, rapid.SampledFrom([]int{0, 0, 0, 10, 100, 1000}).Draw(t, "stagger"))
			}
			raw, _ := json.Marshal(cs)
			err := c.Eval("concurrent", cs)
			cl := fmt.Sprintf("procs=%d;kinds=%s", cs.Procs, strings.Join(kinds, "+"))
			c.Note("concurrent_workloads", cl, atomic.LoadInt64(&overlapSeen) == 1, hx.Hash(raw), func() any {
				s := cs
				if len(s.Workers) > 3 {
					s.Workers = s.Workers[:3]
				}
				return s
			})
			if err != nil {
				t.Fatalf("%v", err)
			}
		})
	})
}
