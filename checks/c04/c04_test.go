// C04: Reed-Solomon codec and GF(2^m) arithmetic exact up to the design distance.
package c04

import (
	"encoding/json"
	"fmt"
	"testing"

	rs "github.com/makiuchi-d/gozxing/common/reedsolomon"
	"pgregory.net/rapid"

	"verif/internal/gfref"
	"verif/internal/hx"
)

type fieldPair struct {
	name string
	lib  *rs.GenericGF
	ref  gfref.Field
}

var fields = []fieldPair{
	{"AZTEC_PARAM_16", rs.GenericGF_AZTEC_PARAM, gfref.Az16},
	{"AZTEC_DATA_6_64", rs.GenericGF_AZTEC_DATA_6, gfref.Az64},
	{"QR_CODE_256", rs.GenericGF_QR_CODE_FIELD_256, gfref.QR256},
	{"DATA_MATRIX_256", rs.GenericGF_DATA_MATRIX_FIELD_256, gfref.DM256},
	{"AZTEC_DATA_10_1024", rs.GenericGF_AZTEC_DATA_10, gfref.Az1024},
	{"AZTEC_DATA_12_4096", rs.GenericGF_AZTEC_DATA_12, gfref.Az4096},
}

func fieldByName(n string) (fieldPair, error) {
	for _, f := range fields {
		if f.name == n {
			return f, nil
		}
	}
	return fieldPair{}, fmt.Errorf("hx: unknown field %q", n)
}

// ------------------------------------------------------------- GF pair case

type GFCase struct {
	Field string `json:"field"`
	A     int    `json:"a"`
	B     int    `json:"b"`
}

func checkGFPair(f fieldPair, a, b int) error {
	want := f.ref.Mul(a, b)
	if got := f.lib.Multiply(a, b); got != want {
		return fmt.Errorf("%s: Multiply(%d,%d)=%d, clmul mod p = %d", f.name, a, b, got, want)
	}
	return nil
}

func checkGFElem(f fieldPair, a int) error {
	if a == 0 {
		if _, err := f.lib.Inverse(0); err == nil {
			return fmt.Errorf("%s: Inverse(0) returned no error", f.name)
		}
		if _, err := f.lib.Log(0); err == nil {
			return fmt.Errorf("%s: Log(0) returned no error", f.name)
		}
		return nil
	}
	inv, err := f.lib.Inverse(a)
	if err != nil {
		return fmt.Errorf("%s: Inverse(%d): %v", f.name, a, err)
	}
	if inv < 0 || inv >= f.ref.Size || f.ref.Mul(a, inv) != 1 {
		return fmt.Errorf("%s: a*Inverse(a) != 1 for a=%d (inverse %d)", f.name, a, inv)
	}
	lg, err := f.lib.Log(a)
	if err != nil {
		return fmt.Errorf("%s: Log(%d): %v", f.name, a, err)
	}
	if lg < 0 || lg >= f.ref.Size-1 {
		return fmt.Errorf("%s: Log(%d)=%d out of range", f.name, a, lg)
	}
	if f.lib.Exp(lg) != a {
		return fmt.Errorf("%s: Exp(Log(%d))=%d", f.name, a, f.lib.Exp(lg))
	}
	if f.ref.Alpha(lg) != a {
		return fmt.Errorf("%s: 2^Log(%d) = %d by shift-xor arithmetic", f.name, a, f.ref.Alpha(lg))
	}
	return nil
}

func checkGFExpIndex(f fieldPair, i int) error {
	e := f.lib.Exp(i)
	if e != f.ref.Alpha(i) {
		return fmt.Errorf("%s: Exp(%d)=%d, 2^%d = %d", f.name, i, e, i, f.ref.Alpha(i))
	}
	if i < f.ref.Size-1 {
		if l, err := f.lib.Log(e); err != nil || l != i {
			return fmt.Errorf("%s: Log(Exp(%d))=%d,%v", f.name, i, l, err)
		}
	}
	return nil
}

func checkGF(raw json.RawMessage) error {
	var c GFCase
	if err := json.Unmarshal(raw, &c); err != nil {
		return fmt.Errorf("hx: %v", err)
	}
	f, err := fieldByName(c.Field)
	if err != nil {
		return err
	}
	if err := checkGFPair(f, c.A, c.B); err != nil {
		return err
	}
	if err := checkGFPair(f, c.B, c.A); err != nil {
		return err
	}
	if err := checkGFElem(f, c.A); err != nil {
		return err
	}
	if c.A < f.ref.Size {
		if err := checkGFExpIndex(f, c.A); err != nil {
			return err
		}
	}
	return nil
}

// ------------------------------------------------------------------ RS case

type RSCase struct {
	Field  string `json:"field"`
	R      int    `json:"r"`
	Data   []int  `json:"data"`
	ErrPos []int  `json:"err_pos,omitempty"` // distinct positions in 0..k+r-1
	ErrMag []int  `json:"err_mag,omitempty"` // non-zero xor magnitudes
}

func checkRS(raw json.RawMessage) error {
	var c RSCase
	if err := json.Unmarshal(raw, &c); err != nil {
		return fmt.Errorf("hx: %v", err)
	}
	f, err := fieldByName(c.Field)
	if err != nil {
		return err
	}
	k, r := len(c.Data), c.R
	word := make([]int, k+r)
	copy(word, c.Data)
	for i := k; i < k+r; i++ {
		word[i] = 1 + i%3 // stale content in the parity area must be overwritten
	}
	if e := rs.NewReedSolomonEncoder(f.lib).Encode(word, r); e != nil {
		return fmt.Errorf("Encode(k=%d,r=%d) in %s failed: %v", k, r, f.name, e)
	}
	for i := 0; i < k; i++ {
		if word[i] != c.Data[i] {
			return fmt.Errorf("Encode changed data symbol %d: %d -> %d", i, c.Data[i], word[i])
		}
	}
	for i, s := range f.ref.Syndromes(word, r) {
		if s != 0 {
			return fmt.Errorf("encoded word has non-zero syndrome S_%d=%d (field %s, k=%d, r=%d)", i, s, f.name, k, r)
		}
	}
	par := f.ref.Parity(c.Data, r)
	for i := range par {
		if word[k+i] != par[i] {
			return fmt.Errorf("parity symbol %d = %d, reference LFSR encoder %d (field %s, k=%d, r=%d)", i, word[k+i], par[i], f.name, k, r)
		}
	}
	clean := append([]int(nil), word...)
	if e := rs.NewReedSolomonDecoder(f.lib).Decode(clean, r); e != nil {
		return fmt.Errorf("Decode of an uncorrupted word failed: %v", e)
	}
	for i := range clean {
		if clean[i] != word[i] {
			return fmt.Errorf("Decode changed an uncorrupted word at %d", i)
		}
	}
	if len(c.ErrPos) == 0 {
		return nil
	}
	if len(c.ErrPos) > r/2 {
		return fmt.Errorf("hx: too many errors for the case")
	}
	bad := append([]int(nil), word...)
	for i, p := range c.ErrPos {
		bad[p] ^= c.ErrMag[i]
	}
	if e := rs.NewReedSolomonDecoder(f.lib).Decode(bad, r); e != nil {
		return fmt.Errorf("Decode failed with %d <= floor(%d/2) errors at %v (magnitudes %v, field %s, k=%d): %v", len(c.ErrPos), r, c.ErrPos, c.ErrMag, f.name, k, e)
	}
	for i := range bad {
		if bad[i] != word[i] {
			return fmt.Errorf("Decode returned success but symbol %d is %d, original %d (errors at %v, field %s, k=%d, r=%d)", i, bad[i], word[i], c.ErrPos, f.name, k, r)
		}
	}
	return nil
}

// RSHistCase: a sequence of encode / decode calls on ONE encoder and ONE decoder instance.
type RSHistCase struct {
	Field string   `json:"field"`
	Calls []RSCase `json:"calls"`
}

func checkRSHist(raw json.RawMessage) error {
	var c RSHistCase
	if err := json.Unmarshal(raw, &c); err != nil {
		return fmt.Errorf("hx: %v", err)
	}
	f, err := fieldByName(c.Field)
	if err != nil {
		return err
	}
	enc := rs.NewReedSolomonEncoder(f.lib)
	dec := rs.NewReedSolomonDecoder(f.lib)
	for ci, call := range c.Calls {
		k, r := len(call.Data), call.R
		word := make([]int, k+r)
		copy(word, call.Data)
		if e := enc.Encode(word, r); e != nil {
			return fmt.Errorf("call %d: Encode(k=%d,r=%d) on a reused encoder failed: %v", ci, k, r, e)
		}
		par := f.ref.Parity(call.Data, r)
		for i := range par {
			if word[k+i] != par[i] {
				return fmt.Errorf("call %d on a reused encoder (field %s, k=%d, r=%d; earlier parity counts %v): parity symbol %d = %d, reference %d", ci, f.name, k, r, parityCounts(c.Calls[:ci]), i, word[k+i], par[i])
			}
		}
		for i := 0; i < k; i++ {
			if word[i] != call.Data[i] {
				return fmt.Errorf("call %d: data symbol %d changed", ci, i)
			}
		}
		bad := append([]int(nil), word...)
		for i, p := range call.ErrPos {
			bad[p] ^= call.ErrMag[i]
		}
		if e := dec.Decode(bad, r); e != nil {
			return fmt.Errorf("call %d on a reused decoder: Decode failed with %d <= floor(%d/2) errors: %v", ci, len(call.ErrPos), r, e)
		}
		for i := range bad {
			if bad[i] != word[i] {
				return fmt.Errorf("call %d on a reused decoder: symbol %d not restored", ci, i)
			}
		}
	}
	return nil
}

func parityCounts(calls []RSCase) []int {
	var out []int
	for _, c := range calls {
		out = append(out, c.R)
	}
	return out
}

func genRS(t *rapid.T, f fieldPair, maxN int) RSCase {
	n1 := f.ref.Size - 1
	if maxN > n1 {
		maxN = n1
	}
	var n int
	switch rapid.IntRange(0, 3).Draw(t, "nkind") {
	case 0:
		n = maxN
	case 1:
		n = rapid.IntRange(2, min(maxN, 20)).Draw(t, "n")
	default:
		n = rapid.IntRange(2, maxN).Draw(t, "n")
	}
	var r int
	switch rapid.IntRange(0, 2).Draw(t, "rkind") {
	case 0:
		r = rapid.IntRange(1, min(n-1, 8)).Draw(t, "r")
	default:
		r = rapid.IntRange(1, n-1).Draw(t, "r")
	}
	k := n - r
	c := RSCase{Field: f.name, R: r, Data: make([]int, k)}
	dk := rapid.IntRange(0, 3).Draw(t, "datakind")
	for i := range c.Data {
		switch dk {
		case 0:
			c.Data[i] = 0
		case 1:
			c.Data[i] = f.ref.Size - 1
		default:
			c.Data[i] = rapid.IntRange(0, f.ref.Size-1).Draw(t, "d")
		}
	}
	ne := 0
	if r/2 > 0 {
		switch rapid.IntRange(0, 3).Draw(t, "ekind") {
		case 0:
			ne = r / 2
		case 1:
			ne = 1
		default:
			ne = rapid.IntRange(0, r/2).Draw(t, "ne")
		}
	}
	used := map[int]bool{}
	for len(c.ErrPos) < ne {
		var p int
		switch rapid.IntRange(0, 5).Draw(t, "pkind") {
		case 0:
			p = 0
		case 1:
			p = n - 1
		case 2:
			p = k - 1
		case 3:
			p = k
		default:
			p = rapid.IntRange(0, n-1).Draw(t, "pos")
		}
		if p < 0 || p >= n || used[p] {
			p = rapid.IntRange(0, n-1).Draw(t, "pos2")
			if used[p] {
				continue
			}
		}
		used[p] = true
		c.ErrPos = append(c.ErrPos, p)
		c.ErrMag = append(c.ErrMag, rapid.IntRange(1, f.ref.Size-1).Draw(t, "mag"))
	}
	return c
}

func TestCheck(t *testing.T) {
	hx.Main(t, "C04", func(c *hx.Ctx) {
		c.Register("gf", checkGF)
		c.Register("rs", checkRS)
		c.Register("rs_history", checkRSHist)
	}, func(c *hx.Ctx) {
		// (0) before anything else has touched a field in this process: Multiply as the very first
		// operation (tables filled lazily, or by another operation's side effect, must not matter)
		for fi, f := range fields {
			rng := hx.NewRng(c.Seed("first", fi))
			for k := 0; k < 40; k++ {
				a, b := 1+rng.Intn(f.ref.Size-1), 1+rng.Intn(f.ref.Size-1)
				if k == 0 {
					a, b = 1, 1
				}
				want := f.ref.Mul(a, b)
				got := f.lib.Multiply(a, b)
				c.Note("first_operation_is_multiply", "field="+f.name, true, hx.HashS("first", f.name, fmt.Sprint(a, b)), func() any { return map[string]any{"field": f.name, "a": a, "b": b} })
				if got != want {
					raw, _ := json.Marshal(GFCase{Field: f.name, A: a, B: b})
					c.FailCase("first_operation_is_multiply", "gf", raw,
						fmt.Sprintf("%s: Multiply(%d,%d) as the first operation on the field in this process = %d, clmul mod p = %d", f.name, a, b, got, want))
					break
				}
			}
		}
		// (a) all element pairs of all six fields
		for _, f := range fields {
			sub := "gf_all_pairs"
			size := f.ref.Size
			var n, nt int64
			bad := false
			for a := 0; a < size && !bad; a++ {
				if !c.Mine(a) {
					continue
				}
				if err := checkGFElem(f, a); err != nil {
					bad = !c.Enum(sub, "gf", GFCase{f.name, a, 1}, nil)
				}
				if err := checkGFExpIndex(f, a); err != nil {
					bad = !c.Enum(sub, "gf", GFCase{f.name, a, 1}, nil)
				}
				for b := 0; b < size; b++ {
					if err := checkGFPair(f, a, b); err != nil {
						bad = !c.Enum(sub, "gf", GFCase{f.name, a, b}, nil)
						break
					}
					n++
					if a > 1 && b > 1 {
						nt++
					}
				}
			}
			ff := f
			c.NoteBulk(sub, "field="+f.name, n, nt, func() any { return GFCase{ff.name, 2 + c.P.Shard, ff.ref.Size - 1} })
		}
		c.SetExhaustive("gf_all_pairs", true)

		// (b,c) rapid: encode + decode with <= floor(r/2) errors
		for fi, f := range fields {
			ff := f
			maxN := 400
			if c.Thorough() && fi%2 == c.P.Shard%2 {
				maxN = 1200
			}
			sub := "rs_random"
			c.RapidIdx(sub, fi, c.N(1500, 6000), 0, func(t *rapid.T) {
				cs := genRS(t, ff, maxN)
				raw, _ := json.Marshal(cs)
				cl := "field=" + ff.name
				switch {
				case len(cs.ErrPos) == 0:
					cl += ";errors=0"
				case len(cs.ErrPos) == cs.R/2:
					cl += ";errors=capacity"
				default:
					cl += ";errors=below_capacity"
				}
				c.Note(sub, cl, len(cs.ErrPos) > 0, hx.Hash(raw), func() any { return cs })
				if err := c.Eval("rs", cs); err != nil {
					t.Fatalf("%v", err)
				}
			})
		}

		// (b') histories: one encoder and one decoder instance reused over a sequence of calls
		for fi, f := range fields {
			ff := f
			c.RapidIdx("rs_instance_histories", fi, c.N(300, 3000), 0, func(t *rapid.T) {
				n := rapid.IntRange(2, 8).Draw(t, "ncalls")
				cs := RSHistCase{Field: ff.name}
				grow := false
				for i := 0; i < n; i++ {
					call := genRS(t, ff, 40)
					call.Field = ""
					if i > 0 && call.R > cs.Calls[i-1].R {
						grow = true
					}
					cs.Calls = append(cs.Calls, call)
				}
				raw, _ := json.Marshal(cs)
				cl := "field=" + ff.name
				if grow {
					cl += ";parity_count_grows"
				}
				c.Note("rs_instance_histories", cl, grow, hx.Hash(raw), func() any { return cs })
				if err := c.Eval("rs_history", cs); err != nil {
					t.Fatalf("%v", err)
				}
			})
		}

		// (d) short codes: all single and double error position sets; magnitudes exhaustive in GF(16)
		idx := 0
		maxShort := c.N(10, 15)
		for _, f := range fields {
			rng := hx.NewRng(c.Seed("short-"+f.name, 0))
			for n := 3; n <= maxShort && n <= f.ref.Size-1; n++ {
				for r := 2; r < n; r++ {
					idx++
					if !c.Mine(idx) {
						continue
					}
					k := n - r
					data := make([]int, k)
					for i := range data {
						data[i] = rng.Intn(f.ref.Size)
					}
					mags := func() []int {
						if f.ref.Size == 16 {
							m := make([]int, 15)
							for i := range m {
								m[i] = i + 1
							}
							return m
						}
						return []int{1, f.ref.Size - 1, 1 + rng.Intn(f.ref.Size-1)}
					}
					sub := "rs_short_all_positions"
					stop := false
					for p1 := 0; p1 < n && !stop; p1++ {
						for _, m1 := range mags() {
							cs := RSCase{Field: f.name, R: r, Data: data, ErrPos: []int{p1}, ErrMag: []int{m1}}
							c.NoteBulk(sub, "single", 1, 1, nil)
							if !c.Enum(sub, "rs", cs, nil) {
								stop = true
								break
							}
						}
						if r < 4 {
							continue
						}
						for p2 := p1 + 1; p2 < n && !stop; p2++ {
							ms := mags()
							if f.ref.Size == 16 {
								ms = []int{1, 7, 15}
							}
							for _, m1 := range ms {
								for _, m2 := range ms {
									cs := RSCase{Field: f.name, R: r, Data: data, ErrPos: []int{p1, p2}, ErrMag: []int{m1, m2}}
									c.NoteBulk(sub, "double", 1, 1, nil)
									if !c.Enum(sub, "rs", cs, nil) {
										stop = true
										break
									}
								}
							}
						}
					}
				}
			}
		}
		c.SetExhaustive("rs_short_all_positions", false)
	})
}
