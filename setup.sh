#!/bin/bash
# setup_cmd: build the driver and pre-build every check binary offline (warms the Go build cache).
set -u
cd "$(dirname "$0")"
export GOFLAGS=-mod=mod GOPROXY=off GOSUMDB=off GOTOOLCHAIN=local
mkdir -p bin evidence replays
go build -o bin/verifctl ./cmd/verifctl || exit 1
rc=0
for d in checks/*/; do
  n=$(basename "$d")
  extra=""
  [ "$n" = "c18" ] && extra="-race"
  go test -c -tags verif $extra -o "bin/$n.test" "./checks/$n" || rc=1
done
exit $rc
