// verifctl builds and runs one property check, merges the shard parts into
// evidence/<id>.json, prints VIOLATION / KNOWN-FINDING lines and maps exit codes:
// 0 held, 1 violation, 2 inconclusive.
package main

import (
	"encoding/binary"
	"encoding/json"
	"fmt"
	"os"
	"os/exec"
	"path/filepath"
	"sort"
	"strconv"
	"strings"
	"sync"
	"time"

	"verif/internal/hx"
)

type fuzzTarget struct {
	Name    string
	Seconds int
}

type cfg struct {
	Level       string
	QuickShards int
	ThorShards  int
	QuickTO     time.Duration // per-process deadline
	ThorTO      time.Duration
	Race        bool
	Rule        string
	Explain     string
	Assumptions []string
	Fuzz        []fuzzTarget // thorough tier only
	MemKB       int          // ulimit -v per process (0 = default 6 GiB)
}

func root() string { return hx.VerifDir() }

func main() {
	if len(os.Args) < 3 {
		fmt.Fprintln(os.Stderr, "usage: verifctl <Cxx> quick|thorough | --replay <path>")
		os.Exit(2)
	}
	id := strings.ToUpper(os.Args[1])
	c, ok := configs[id]
	if !ok {
		fmt.Fprintf(os.Stderr, "unknown property %s\n", id)
		os.Exit(2)
	}
	mode := os.Args[2]
	replay := ""
	tier := "quick"
	switch mode {
	case "quick", "thorough":
		tier = mode
	case "--replay":
		if len(os.Args) < 4 {
			fmt.Fprintln(os.Stderr, "--replay needs a path")
			os.Exit(2)
		}
		replay = os.Args[3]
		if !filepath.IsAbs(replay) {
			wd, _ := os.Getwd()
			replay = filepath.Join(wd, replay)
		}
	default:
		if t := os.Getenv("VERIF_TIER"); t == "thorough" {
			tier = t
		}
	}
	seed := int64(1)
	if v := os.Getenv("VERIF_SEED"); v != "" {
		if n, err := strconv.ParseInt(v, 10, 64); err == nil {
			seed = n
		}
	}
	os.Exit(run(id, c, tier, seed, replay))
}

func run(id string, c cfg, tier string, seed int64, replay string) int {
	start := time.Now()
	lower := strings.ToLower(id)
	bin := filepath.Join(root(), "bin", lower+".test")
	pkgDir := filepath.Join(root(), "checks", lower)
	os.MkdirAll(filepath.Join(root(), "bin"), 0o755)
	os.RemoveAll(filepath.Join(pkgDir, "testdata", "rapid"))

	args := []string{"test", "-c", "-tags", "verif", "-o", bin}
	if c.Race {
		args = append(args, "-race")
	}
	args = append(args, "./checks/"+lower)
	cmd := exec.Command("go", args...)
	cmd.Dir = root()
	if out, err := cmd.CombinedOutput(); err != nil {
		fmt.Printf("INCONCLUSIVE property=%s build failed: %v\n%s\n", id, err, out)
		return 2
	}

	shards := c.QuickShards
	to := c.QuickTO
	if tier == "thorough" {
		shards, to = c.ThorShards, c.ThorTO
	}
	if shards < 1 {
		shards = 1
	}
	if to == 0 {
		to = 10 * time.Minute
	}
	if replay != "" {
		shards = 1
	}
	partDir := filepath.Join(root(), ".parts", lower)
	os.RemoveAll(partDir)
	os.MkdirAll(partDir, 0o755)

	parts := make([]*hx.Part, shards)
	problems := make([]string, shards)
	// runShard runs shard i once; extra environment entries are appended; tag names its files.
	runShard := func(i int, tag string, extra ...string) (*hx.Part, string) {
		out := filepath.Join(partDir, fmt.Sprintf("part%d%s.json", i, tag))
		os.Remove(out)
		mem := c.MemKB
		if mem == 0 {
			mem = 6 << 20
		}
		if c.Race {
			mem = 0 // the race runtime reserves a huge address space
		}
		sh := fmt.Sprintf("exec %q -test.run '^TestCheck$' -test.timeout %ds -test.count 1", bin, int(to.Seconds())+30)
		if mem > 0 {
			sh = fmt.Sprintf("ulimit -v %d; ", mem) + sh
		}
		p := exec.Command("bash", "-c", sh)
		p.Dir = pkgDir
		p.Env = append(os.Environ(),
			"VERIF_TIER="+tier, "VERIF_SEED="+strconv.FormatInt(seed, 10),
			"VERIF_SHARD="+strconv.Itoa(i), "VERIF_NSHARDS="+strconv.Itoa(shards),
			"VERIF_OUT="+out, "VERIF_REPLAY="+replay, "VERIF_DIR="+root())
		if c.Race {
			p.Env = append(p.Env, "GORACE=log_path="+filepath.Join(partDir, fmt.Sprintf("race%d", i))+" halt_on_error=0")
		}
		p.Env = append(p.Env, extra...)
		logPath := filepath.Join(partDir, fmt.Sprintf("log%d%s.txt", i, tag))
		logf, _ := os.Create(logPath)
		p.Stdout, p.Stderr = logf, logf
		done := make(chan error, 1)
		if err := p.Start(); err != nil {
			return nil, "cannot start: " + err.Error()
		}
		go func() { done <- p.Wait() }()
		var werr error
		select {
		case werr = <-done:
		case <-time.After(to + 60*time.Second):
			p.Process.Kill()
			werr = fmt.Errorf("killed after %v", to)
		}
		logf.Close()
		b, err := os.ReadFile(out)
		if err != nil {
			lg, _ := os.ReadFile(logPath)
			tail := string(lg)
			if len(tail) > 3000 {
				// the runtime prints the reason of a fatal error first, the goroutine dump after it
				tail = tail[:900] + "\n[...]\n" + tail[len(tail)-2000:]
			}
			return nil, fmt.Sprintf("shard %d produced no part file (%v); log:\n%s", i, werr, tail)
		}
		var pt hx.Part
		if err := json.Unmarshal(b, &pt); err != nil || !pt.Done {
			return nil, fmt.Sprintf("shard %d part unreadable: %v", i, err)
		}
		return &pt, ""
	}
	var wg sync.WaitGroup
	for i := 0; i < shards; i++ {
		wg.Add(1)
		go func(i int) {
			defer wg.Done()
			parts[i], problems[i] = runShard(i, "")
		}(i)
	}
	wg.Wait()

	// A shard that died (fatal runtime error in the code under test: stack overflow, out of memory,
	// concurrent map write) is run again with a case journal; the case in flight at the second death
	// is replayed alone, and only if the process dies on it again is it reported as a violation.
	var crashViol []hx.Violation
	for i := range parts {
		if parts[i] != nil || !strings.Contains(problems[i], "produced no part file") || strings.Contains(problems[i], "killed after") {
			continue
		}
		fatal := fatalLine(problems[i])
		journal := filepath.Join(partDir, fmt.Sprintf("journal%d.json", i))
		os.Remove(journal)
		pt, prob := runShard(i, "-journal", "VERIF_JOURNAL="+journal)
		if pt != nil {
			parts[i], problems[i] = pt, "" // not reproduced: the second run completed
			continue
		}
		if f := fatalLine(prob); f != "" {
			fatal = f
		}
		jb, err := os.ReadFile(journal)
		var jc struct {
			Kind string          `json:"kind"`
			Case json.RawMessage `json:"case"`
		}
		if err != nil || json.Unmarshal(jb, &jc) != nil || jc.Kind == "" {
			continue // stays inconclusive
		}
		rp := filepath.Join(root(), "replays", id, fmt.Sprintf("crash-%s-seed%d-shard%d.json", tier, seed, i))
		os.MkdirAll(filepath.Dir(rp), 0o755)
		rb, _ := json.MarshalIndent(map[string]any{"property": id, "kind": jc.Kind, "sub": "process_crash", "seed": seed, "tier": tier,
			"error": "the process evaluating this case died: " + fatal, "case": jc.Case}, "", " ")
		os.WriteFile(rp, rb, 0o644)
		if crashConfirmed(bin, pkgDir, partDir, rp, c.Race) {
			crashViol = append(crashViol, hx.Violation{Sub: "process_crash", Kind: jc.Kind, Replay: rp,
				Msg: "the process evaluating this case died (not a recoverable panic): " + fatal})
			problems[i] = "shard " + strconv.Itoa(i) + " died on the case saved as " + rp + " (reported as a violation); the rest of that shard's work was not done"
		}
	}

	// optional native fuzz campaigns (thorough only)
	fuzzRes := map[string]any{}
	var fuzzViol []hx.Violation
	var inconclFuzz []string
	if tier == "thorough" && replay == "" {
		fuzzBin := filepath.Join(root(), "bin", lower+".fuzz")
		if len(c.Fuzz) > 0 {
			// instrumented build for coverage guidance
			fb := exec.Command("go", "test", "-c", "-fuzz=Fuzz", "-tags", "verif", "-o", fuzzBin, "./checks/"+lower)
			fb.Dir = root()
			if out, err := fb.CombinedOutput(); err != nil {
				inconclFuzz = append(inconclFuzz, fmt.Sprintf("fuzz build failed: %v %s", err, out))
			}
		}
		for _, ft := range c.Fuzz {
			if len(inconclFuzz) > 0 {
				break
			}
			res, v := runFuzz(id, fuzzBin, pkgDir, ft)
			fuzzRes[ft.Name] = res
			fuzzViol = append(fuzzViol, v...)
		}
	}

	// merge
	ev := map[string]any{}
	cov := map[string]any{}
	var evals, ntLocal, bulkDistinct int64
	classes := map[string]int64{}
	subs := map[string]int64{}
	exh := map[string]bool{}
	excl := map[string]int64{}
	extra := map[string]any{}
	var samples []any
	var viols []hx.Violation
	known := map[string]*hx.KnownHit{}
	var knownOrder []string
	var notes, inconcl []string
	hashes := map[uint64]struct{}{}
	capped := false
	for i, p := range parts {
		if p == nil {
			inconcl = append(inconcl, problems[i])
			continue
		}
		evals += p.Evaluations
		bulkDistinct += p.BulkDistinct
		ntLocal += p.NonTrivial
		for k, v := range p.Classes {
			classes[k] += v
		}
		for k, v := range p.Subchecks {
			subs[k] += v
		}
		for k, v := range p.Exhaustive {
			if prev, ok := exh[k]; ok {
				exh[k] = prev && v
			} else {
				exh[k] = v
			}
		}
		for k, v := range p.Excluded {
			excl[k] += v
		}
		for k, v := range p.Extra {
			if _, ok := extra[k]; !ok {
				extra[k] = v
			}
		}
		if len(samples) < 40 {
			n := 40/len(parts) + 1
			if n > len(p.Samples) {
				n = len(p.Samples)
			}
			samples = append(samples, p.Samples[:n]...)
		}
		viols = append(viols, p.Violations...)
		for _, k := range p.Known {
			kk := k
			if e, ok := known[k.ID]; ok {
				e.Count += k.Count
				e.Witness = e.Witness || k.Witness
			} else {
				known[k.ID] = &kk
				knownOrder = append(knownOrder, k.ID)
			}
		}
		if i == 0 {
			notes = append(notes, p.Notes...)
		}
		inconcl = append(inconcl, p.Inconclusive...)
		capped = capped || p.HashCapped
		if hb, err := os.ReadFile(p.HashFile); err == nil {
			for j := 0; j+8 <= len(hb); j += 8 {
				hashes[binary.LittleEndian.Uint64(hb[j:])] = struct{}{}
			}
		}
	}
	viols = append(viols, fuzzViol...)
	viols = append(viols, crashViol...)
	inconcl = append(inconcl, inconclFuzz...)
	if c.Race {
		// data race reports written by the race runtime: each shard's first report becomes a violation
		files, _ := filepath.Glob(filepath.Join(partDir, "race*.*"))
		sort.Strings(files)
		for _, f := range files {
			b, err := os.ReadFile(f)
			if err != nil || !strings.Contains(string(b), "DATA RACE") {
				continue
			}
			dst := filepath.Join(root(), "replays", id, fmt.Sprintf("race-%s-seed%d-%s.txt", tier, seed, filepath.Base(f)))
			os.MkdirAll(filepath.Dir(dst), 0o755)
			os.WriteFile(dst, b, 0o644)
			msg := string(b)
			if i := strings.Index(msg, "WARNING: DATA RACE"); i >= 0 {
				msg = msg[i:]
			}
			var keep []string
			for _, l := range strings.Split(msg, "\n") {
				if strings.Contains(l, "DATA RACE") || strings.Contains(l, "gozxing") || strings.HasPrefix(l, "Previous") || strings.HasPrefix(l, "Write") || strings.HasPrefix(l, "Read") {
					keep = append(keep, strings.TrimSpace(l))
				}
				if len(keep) >= 10 {
					break
				}
			}
			viols = append(viols, hx.Violation{Sub: "race_detector", Kind: "race_report", Replay: dst, Msg: strings.Join(keep, "\n")})
		}
	}
	// suspected hangs are re-run alone, in a fresh process with a 120 s limit; only a second expiry counts
	if replay == "" {
		kept := viols[:0]
		for _, v := range viols {
			if !v.Hang {
				kept = append(kept, v)
				continue
			}
			if confirmHang(bin, pkgDir, partDir, v.Replay) {
				kept = append(kept, v)
			} else {
				notes = append(notes, "suspected hang not reproduced in isolation (dropped): "+v.Replay)
				os.Remove(v.Replay)
			}
		}
		viols = kept
	}
	sort.Strings(knownOrder)

	allExh := len(exh) > 0
	var exhList []string
	for k, v := range exh {
		if v {
			exhList = append(exhList, k)
		} else {
			allExh = false
		}
	}
	sort.Strings(exhList)
	// the run as a whole is exhaustive only if every sub-check says so
	if len(exh) < len(subs) {
		allExh = false
	}

	rule := c.Rule
	if capped {
		rule += " (distinct count is a lower bound: the per-process hash set was capped)"
	}
	cov["evaluations"] = evals
	distinct := int64(len(hashes)) + bulkDistinct
	cov["distinct_nontrivial"] = distinct
	cov["distinct_by_hash"] = int64(len(hashes))
	cov["distinct_by_enumeration"] = bulkDistinct
	cov["nontrivial_evaluations"] = ntLocal
	cov["rule"] = rule
	cov["samples"] = samples
	cov["exhaustive"] = allExh
	cov["exhaustive_subchecks"] = exhList
	cov["explanation"] = c.Explain
	cov["classes"] = classes
	cov["subchecks"] = subs
	cov["excluded_by_construction"] = excl
	cov["shards"] = shards
	if len(fuzzRes) > 0 {
		cov["fuzz"] = fuzzRes
	}
	if len(notes) > 0 {
		cov["notes"] = notes
	}
	if len(extra) > 0 {
		cov["extra"] = extra
	}
	var kh []any
	for _, id := range knownOrder {
		kh = append(kh, known[id])
	}
	cov["known_findings_hit"] = kh
	if len(inconcl) > 0 {
		cov["inconclusive"] = inconcl
	}
	ev["property_id"] = id
	ev["tier"] = tier
	ev["seed"] = seed
	ev["level"] = c.Level
	ev["coverage"] = cov
	ev["assumptions"] = c.Assumptions
	ev["wall_s"] = time.Since(start).Seconds()
	ev["violations"] = len(viols)

	if replay == "" {
		os.MkdirAll(filepath.Join(root(), "evidence"), 0o755)
		b, _ := json.MarshalIndent(ev, "", " ")
		os.WriteFile(filepath.Join(root(), "evidence", id+".json"), append(b, '\n'), 0o644)
	}

	for _, kid := range knownOrder {
		k := known[kid]
		if k.Witness || k.Count > 0 {
			fmt.Printf("KNOWN-FINDING: property=%s %s [%s; matched %d case(s) this run]\n", id, k.What, k.ID, k.Count)
		}
	}
	seenSub := map[string]int{}
	for _, v := range viols {
		seenSub[v.Sub]++
		if seenSub[v.Sub] > 1 {
			continue // same sub-check failing in another shard: replay file kept, line not repeated
		}
		fmt.Printf("VIOLATION property=%s replay=%s\n", id, v.Replay)
		msg := strings.Split(v.Msg, "\n")
		if len(msg) > 6 {
			msg = msg[:6]
		}
		fmt.Printf("  sub-check %s: %s\n", v.Sub, strings.Join(msg, "\n    "))
	}
	seenInc := map[string]bool{}
	for _, m := range inconcl {
		if len(m) > 700 {
			m = m[:700] + "..."
		}
		key := m
		if len(key) > 60 {
			key = key[:60]
		}
		if seenInc[key] {
			continue
		}
		seenInc[key] = true
		fmt.Printf("INCONCLUSIVE property=%s %s\n", id, m)
	}
	fmt.Printf("%s %s seed=%d: evaluations=%d distinct_nontrivial=%d violations=%d wall=%.1fs\n",
		id, tier, seed, evals, distinct, len(viols), time.Since(start).Seconds())
	if len(viols) > 0 {
		return 1
	}
	if len(inconcl) > 0 {
		return 2
	}
	return 0
}

// fatalLine extracts the runtime's own description of a process death from a log tail.
func fatalLine(s string) string {
	for _, l := range strings.Split(s, "\n") {
		t := strings.TrimSpace(l)
		if strings.HasPrefix(t, "fatal error:") || strings.HasPrefix(t, "runtime: goroutine stack exceeds") || strings.HasPrefix(t, "runtime: out of memory") || strings.Contains(t, "signal SIG") {
			return t
		}
	}
	return ""
}

// crashConfirmed replays one case alone: true if the process dies again without writing its part.
func crashConfirmed(bin, pkgDir, partDir, replay string, race bool) bool {
	out := filepath.Join(partDir, "crashcheck.json")
	os.Remove(out)
	sh := fmt.Sprintf("exec %q -test.run '^TestCheck$' -test.timeout 400s -test.count 1", bin)
	if !race {
		sh = fmt.Sprintf("ulimit -v %d; ", 6<<20) + sh
	}
	p := exec.Command("bash", "-c", sh)
	p.Dir = pkgDir
	p.Env = append(os.Environ(), "VERIF_TIER=quick", "VERIF_SHARD=0", "VERIF_NSHARDS=1", "VERIF_OUT="+out,
		"VERIF_REPLAY="+replay, "VERIF_DIR="+root())
	done := make(chan error, 1)
	if err := p.Start(); err != nil {
		return false
	}
	go func() { done <- p.Wait() }()
	select {
	case <-done:
	case <-time.After(420 * time.Second):
		p.Process.Kill()
		return false // a hang, not a crash: left to the watchdog path
	}
	_, err := os.ReadFile(out)
	return err != nil
}

// confirmHang replays one suspected hang alone with a 120 s watchdog.
func confirmHang(bin, pkgDir, partDir, replay string) bool {
	out := filepath.Join(partDir, "hangcheck.json")
	os.Remove(out)
	p := exec.Command(bin, "-test.run", "^TestCheck$", "-test.timeout", "400s", "-test.count", "1")
	p.Dir = pkgDir
	p.Env = append(os.Environ(), "VERIF_TIER=quick", "VERIF_SHARD=0", "VERIF_NSHARDS=1", "VERIF_OUT="+out,
		"VERIF_REPLAY="+replay, "VERIF_DIR="+root(), "VERIF_HANG_LIMIT=120")
	done := make(chan error, 1)
	if err := p.Start(); err != nil {
		return true
	}
	go func() { done <- p.Wait() }()
	select {
	case <-done:
	case <-time.After(300 * time.Second):
		p.Process.Kill()
		return true
	}
	b, err := os.ReadFile(out)
	if err != nil {
		return true
	}
	var pt hx.Part
	if json.Unmarshal(b, &pt) != nil {
		return true
	}
	return len(pt.Violations) > 0
}

// runFuzz runs one native fuzz target for a bounded time from a fresh cache.
func runFuzz(id, bin, pkgDir string, ft fuzzTarget) (map[string]any, []hx.Violation) {
	cache := filepath.Join(root(), ".fuzzcache", strings.ToLower(id), ft.Name)
	os.RemoveAll(cache)
	os.MkdirAll(cache, 0o755)
	crashDir := filepath.Join(pkgDir, "testdata", "fuzz", ft.Name)
	before := map[string]bool{}
	if es, err := os.ReadDir(crashDir); err == nil {
		for _, e := range es {
			before[e.Name()] = true
		}
	}
	cmd := exec.Command(bin, "-test.run", "^$", "-test.fuzz", "^"+ft.Name+"$",
		"-test.fuzztime", fmt.Sprintf("%ds", ft.Seconds), "-test.fuzzcachedir", cache, "-test.timeout", fmt.Sprintf("%ds", ft.Seconds+300))
	cmd.Dir = pkgDir
	cmd.Env = append(os.Environ(), "VERIF_DIR="+root())
	out, err := cmd.CombinedOutput()
	res := map[string]any{"seconds": ft.Seconds}
	lines := strings.Split(strings.TrimSpace(string(out)), "\n")
	for i := len(lines) - 1; i >= 0; i-- {
		if strings.Contains(lines[i], "execs:") {
			res["last_status"] = strings.TrimSpace(lines[i])
			break
		}
	}
	var v []hx.Violation
	if err != nil {
		// a crasher was written to testdata/fuzz/<target>/
		newest := ""
		if es, e2 := os.ReadDir(crashDir); e2 == nil {
			for _, e := range es {
				if !before[e.Name()] {
					newest = filepath.Join(crashDir, e.Name())
				}
			}
		}
		tail := string(out)
		if len(tail) > 1500 {
			tail = tail[len(tail)-1500:]
		}
		if newest != "" {
			dst := filepath.Join(root(), "replays", id, "fuzz-"+ft.Name+"-"+filepath.Base(newest))
			os.MkdirAll(filepath.Dir(dst), 0o755)
			if b, e3 := os.ReadFile(newest); e3 == nil {
				os.WriteFile(dst, b, 0o644)
				os.Remove(newest) // the replay copy is the record; do not leave it as a seed for later runs
			}
			v = append(v, hx.Violation{Sub: "fuzz/" + ft.Name, Kind: "gofuzz", Replay: dst, Msg: tail})
		} else {
			res["error"] = tail
		}
	}
	os.RemoveAll(cache)
	return res, v
}
