package main

import "time"

var configs = map[string]cfg{}

func init() {
	configs["C16"] = cfg{
		Level: "exploration", QuickShards: 8, ThorShards: 16, QuickTO: 5 * time.Minute, ThorTO: 30 * time.Minute,
		Rule:        "rapid-generated operation sequences (1..40 ops over the public BitMatrix / BitArray API, in-range arguments, valid and invalid rectangles/ranges/sizes) applied to the library object and to a naive [][]bool / []bool model, all queries compared after every step; every (w,h) in 1..130 x 1..8 and every size 0..200 (and NewEmptyBitArray) gets a fixed quota of sequences, plus a free search with word-multiple widths over-weighted. Non-trivial = the sequence contains a rotation / reversal / region or range fill / flip-all / xor / set-row / append executed after a state that had both set and unset bits; distinct by hash of the whole case.",
		Explain:     "model-based stateful PBT; dimension space enumerated completely, contents and sequences sampled",
		Assumptions: []string{"unchecked accessors (BitArray Get/Set/Flip, BitMatrix Set/Unset/Flip) only receive in-range indices", "SetBulk values never set bits at or beyond the array size", "rows given to SetRow have exactly the matrix width"},
	}
	configs["C20"] = cfg{
		Level: "exploration", QuickShards: 8, ThorShards: 16, QuickTO: 5 * time.Minute, ThorTO: 30 * time.Minute,
		Rule:        "RecordPattern / RecordPatternInReverse: rapid rows of length 0..300 (alternating, short runs, long runs), every kind of start offset and 1..10 counters, compared with a run-length model (non-trivial = the row holds more runs than counters, so the counters are filled); plus all (start, n) on fixed small rows. PatternMatchVariance: every row of every pattern table the library matches with it (hook-exported UPC/EAN, Code 128, ITF tables and RSS-14 finder patterns) x all counter vectors with entries 0..6 (exhaustive in the thorough tier, strided above 20000 vectors per row in quick) and rapid vectors with entries 0..40 and generated patterns, compared with the contract evaluated in exact rationals (tolerance 1e-9), +Inf classes included, scale invariance k=2..8 (1e-12). Non-trivial = total width >= pattern width and not an exact multiple (finite inexact score or +Inf by individual variance); distinct by hash of (counters, pattern, limit).",
		Explain:     "table rows enumerated completely; counter vectors with entries <= 6 enumerated completely in the thorough tier",
		Assumptions: []string{"start offsets are within 0..len (forward) and 0..len-1 (reverse), as every caller passes", "comparisons within 1e-9 relative of the individual-variance boundary are skipped (floating point may legitimately fall either way)", "pattern tables are those exported by the verif-tagged hook oned.VerifPatternTables / rss.VerifFinderPatterns"},
	}
	configs["C04"] = cfg{
		Level: "exploration", QuickShards: 8, ThorShards: 16, QuickTO: 5 * time.Minute, ThorTO: 30 * time.Minute,
		Rule:        "gf_all_pairs: every (a,b) of each of the six fields (16^2 + 64^2 + 2*256^2 + 1024^2 + 4096^2 products) against shift-and-xor multiplication modulo the primitive polynomial, plus inverse / exp / log laws for every element (non-trivial = both operands outside {0,1}; distinct by enumeration). rs_random: rapid (field, k, r, data, error positions incl. first/last/data-parity border, magnitudes) with |E| <= floor(r/2): systematic encode, zero syndromes computed by the reference, parity equal to an independent LFSR encoder, clean pass-through, exact correction (non-trivial = at least one corrupted symbol; distinct by case hash). rs_short_all_positions: all single- and double-error position sets for every (n,r) with n <= 10 (quick) / 15 (thorough), magnitudes exhaustive for single errors in GF(16), sampled elsewhere.",
		Explain:     "GF arithmetic enumerated completely; RS code parameters and error patterns sampled, short codes enumerated over all error position sets",
		Assumptions: []string{"nothing is asserted for more than floor(r/2) errors", "reference arithmetic: internal/gfref (no tables)"},
	}
	configs["C07"] = cfg{
		Level: "exploration", QuickShards: 8, ThorShards: 16, QuickTO: 5 * time.Minute, ThorTO: 30 * time.Minute,
		Rule:        "Differential against internal/qrref (symbol built from ISO 18004: capacity formula, table 9 block structure, bit stream, LFSR RS over own GF(256), interleave, function patterns, BCH format/version words, zig-zag placement, mask formulae). sym_all_configs: all 1280 (version, level, mask) configurations with a text payload (mode rotates; thorough: all four modes x lengths {1, mid, cap, cap-1}) forced by hints, module-by-module comparison; sym_random: rapid configurations incl. ECI and FNC1 headers near capacity; raw_streams: arbitrary final codeword streams through MatrixUtil_buildMatrix for all (version, mask); tables_all_versions: totals, alignment centres, dimension, all 160 block structures, version words, decoder mask predicates for every dimension; format_words_all: all 32 BCH format words. Non-trivial = every compared symbol/table (distinct by configuration + payload hash).",
		Explain:     "configuration space (1280) and all table entries enumerated completely; payload space sampled",
		Assumptions: []string{"the forced-mask symbol is compared (the penalty-based automatic mask choice is not part of the property)", "reference tables typed from ISO 18004 table 9; capacity anchors 7089/4296/2953/1817 etc. are re-derived at start"},
	}
	configs["C01"] = cfg{
		Level: "exploration", QuickShards: 8, ThorShards: 16, QuickTO: 8 * time.Minute, ThorTO: 40 * time.Minute,
		Rule:        "Round trip read(write(t)) == t with the same error-correction level. grid_all_configs: all 1280 (version, level, mask) configurations forced by hints, payload at capacity / capacity-1 computed by the independent capacity formula, content class rotating over numeric / alphanumeric / ASCII byte / UTF-8 byte / all byte values (ISO-8859-1 hint) / Kanji / Shift_JIS byte (thorough: 4 classes per configuration and the image path for versions <= 25). random: rapid (content class, level, version hint or auto, mask hint or auto, charset hint, margin 4..12, requested size up to 3x natural, matrix path or rendered-image path read with PURE_BARCODE), length drawn relative to the capacity of a target version (cap, cap-1, small, free) with versions 9|10, 26|27 over-weighted. Non-trivial = the text fits (by the independent formula) and was encoded, decoded and compared (every executed case); distinct by hash of all fields.",
		Explain:     "configuration space enumerated completely, payloads and hint combinations sampled",
		Assumptions: []string{"capacity / fit decided by internal/qrref (standard formulae)", "charset hints are only given for text representable in that charset (x/text round trip)", "margin hint >= 4 or absent"},
	}
	configs["C08"] = cfg{
		Level: "exploration", QuickShards: 8, ThorShards: 16, QuickTO: 5 * time.Minute, ThorTO: 30 * time.Minute,
		Rule:        "Differential against internal/dmref (ISO 16022 attribute table typed from table 7, LFSR RS over own GF(256)/0x12D with generator prod(x-2^i), Annex F placement re-implemented, finder/clock tracks, Annex B randomisers). vectors_all_sizes: every one of the 30 sizes x data codeword vectors of exactly its capacity (random, zero, 0xFF, pad-only, single, ramp): ErrorCorrection_EncodeECC200 == reference interleaved parity, DefaultPlacement == reference mapping matrix; writer_texts / writer_padding_all_sizes: DataMatrixWriter.Encode(text, 0x0, size forced) == reference symbol built from the library's own high-level codewords, observed padding follows the 253-state rule; base256_streams: Base-256 segments in real streams un-randomise to length + data; factor_tables (16), randomisers (positions 1..1558, all 256 values), size_tables (encoder entry == decoder entry == standard for all 30 sizes, lookup order, DMRE rows self-consistent) are enumerated completely. Non-trivial = every compared vector / symbol / table entry; distinct by case hash.",
		Explain:     "size space, parity lengths, positions and table entries enumerated completely; codeword vectors and texts sampled",
		Assumptions: []string{"which encodation the high-level encoder picks is not part of this property (the reference symbol is built from the library's own data codewords)", "144x144 parity order: blocks 1-8 after blocks 9-10 (the order the library's decoder and other implementations read)"},
	}
}
