package main

import "time"

var configs = map[string]cfg{}

func init() {
	configs["C16"] = cfg{
		Level: "exploration", QuickShards: 8, ThorShards: 16, QuickTO: 5 * time.Minute, ThorTO: 30 * time.Minute,
		Rule: "rapid-generated operation sequences (1..40 ops over the public BitMatrix / BitArray API, in-range arguments, valid and invalid rectangles/ranges/sizes) applied to the library object and to a naive [][]bool / []bool model, all queries compared after every step; every (w,h) in 1..130 x 1..8 and every size 0..200 (and NewEmptyBitArray) gets a fixed quota of sequences, plus a free search with word-multiple widths over-weighted. Non-trivial = the sequence contains a rotation / reversal / region or range fill / flip-all / xor / set-row / append executed after a state that had both set and unset bits; distinct by hash of the whole case.",
		Explain: "model-based stateful PBT; dimension space enumerated completely, contents and sequences sampled",
		Assumptions: []string{"unchecked accessors (BitArray Get/Set/Flip, BitMatrix Set/Unset/Flip) only receive in-range indices", "SetBulk values never set bits at or beyond the array size", "rows given to SetRow have exactly the matrix width"},
	}
}
