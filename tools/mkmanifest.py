#!/usr/bin/env python3
"""Regenerates /verif/MANIFEST.json from the table below (kept here so the manifest stays valid
while checks are added). Run: python3 tools/mkmanifest.py"""
import json, os, subprocess
ROOT = os.path.dirname(os.path.dirname(os.path.abspath(__file__)))

CHECKS = {
 "C16": dict(cat="exploration", ref="DESIGN.md §4 C16",
   text="Model-based stateful property testing: every BitMatrix dimension 1..130 x 1..8 and every BitArray size 0..200 is driven through generated operation sequences against a naive bool-grid model with all queries compared after every step. The dimension space is covered completely, contents and sequences are sampled; exploration is the right level because the property quantifies over unbounded histories. Caller-supplied row buffers arrive dirty (all bits set).",
   note="Trusted: the naive [][]bool / []bool model in checks/c16 (a few lines per operation) and rapid's generators. Unchecked accessors only receive in-range indices.",
   tech="model-based stateful property testing (rapid) against a naive model"),
 "C20": dict(cat="exploration", ref="DESIGN.md §4 C20",
   text="Generated rows / start offsets / counter lengths against a run-length model, and the pattern-match score against the stated formula evaluated in exact rational arithmetic for every row of every library pattern table with all small counter vectors (exhaustive in the thorough tier) plus rapid-generated larger ones; +Inf classes and scale invariance included. The three best-match decoders (ITF, Code 128, UPC/EAN) are compared with 'unique lowest reference score below the limit' over all small run vectors and rapid-generated distortions. Two further run-length acceptance rules in the anchored files: the RSS finder test (first-two-runs share within 9.5/12..12.5/14, widest < 10x narrowest) against an integer model for every vector of runs 1..20 and for scaled / larger ones, and Code 39 rows whose data characters have runs widened by 1-3 px (every character still with three unambiguous wide runs, none 1.5x the average) read at scale 1 and at a 2-5x enlargement.",
   note="Trusted: the run-length model and the big.Rat formula in checks/c20; tables come from the verif-tagged hooks. Cases within 1e-9 of the individual-variance boundary are skipped.",
   tech="property-based testing against a reference model / exact-rational formula; small domains enumerated"),
 "C01": dict(cat="exploration", ref="DESIGN.md §4 C01",
   text="Round-trip property testing: all 1280 (version, level, mask) configurations with boundary payloads (capacity, capacity-1 from the independent formula) over all content classes, plus rapid-generated (content class, hints, margin, requested size, matrix path / rendered-image pure-barcode path). The configuration space is enumerated, payloads sampled; a round trip over sampled payloads is the appropriate level for a forall-text property. Also: every text length 1..capacity per mode for sampled versions, and histories of 2-4 symbols through one writer, one reader and one decoder instance with failing reads in between.",
   note="Trusted: capacity/fit formulae in internal/qrref (validated against the published 7089/4296/2953/1817 figures), x/text as the oracle for which text a charset can represent. Round trips cannot see errors shared by writer and reader; C07 covers those.",
   tech="round-trip property-based testing (rapid) + exhaustive configuration grid"),
 "C04": dict(cat="exploration", ref="DESIGN.md §4 C04",
   text="All element pairs of all six fields are compared with shift-and-xor polynomial arithmetic (exhaustive); RS encode/decode is tested with rapid over (field, k, r, data, error set, magnitudes) with an independent syndrome computation and LFSR encoder; short codes are enumerated over all single/double error positions.",
   note="Trusted: internal/gfref (table-free GF arithmetic, ~100 lines). Nothing asserted beyond floor(r/2) errors.",
   tech="exhaustive enumeration (GF) + property-based testing with an independent reference (RS)"),
 "C07": dict(cat="exploration", ref="DESIGN.md §4 C07",
   text="Differential testing against an independent QR encoder written from ISO 18004 (internal/qrref): all 1280 configurations x payloads module by module, arbitrary codeword streams through buildMatrix, all decoder tables (totals, 160 block structures, alignment centres, format/version words, mask predicates). Configurations and tables enumerated completely; payloads sampled.",
   note="Trusted: internal/qrref (320 table numbers typed from ISO 18004 table 9, everything else derived by formula; its capacities reproduce the published figures). Only forced-mask symbols are compared.",
   tech="differential testing against an independent reference encoder; exhaustive over configurations and tables"),
 "C08": dict(cat="exploration", ref="DESIGN.md §4 C08",
   text="Differential testing against an independent ECC 200 construction (internal/dmref): all 30 sizes x codeword vectors (ECC interleave, Annex F placement), full writer output vs reference symbol, factor tables vs prod(x-2^i), randomisers for positions 1..1558, encoder/decoder size tables vs the standard's attribute table. Sizes, tables and formulae enumerated completely; vectors and texts sampled.",
   note="Trusted: internal/dmref (attribute table typed from ISO 16022 table 7 with the cells/8 identity as self-check, Annex F placement re-implemented). 144x144 parity order as read by the library's decoder and de-facto implementations.",
   tech="differential testing against an independent reference construction; exhaustive over sizes and tables"),
 "C05": dict(cat="fault_enumeration", ref="DESIGN.md §4 C05",
   text="Fault enumeration: library-written symbols are damaged through module flips located by the independent module->codeword maps, with at most floor(ec/2) codewords per RS block; all <=3-bit error patterns of every format and version word are enumerated; single-codeword faults are enumerated over every position of every block for every (version, level) and every Data Matrix size in the thorough tier; multi-fault sets up to capacity in all blocks are rapid-generated.",
   note="Trusted: the reference placement / block maps (shown by C07/C08 to agree with the library's writer); the undamaged symbol is produced by the library's own writer.",
   tech="fault enumeration (exhaustive small patterns / positions) + property-based fault-set generation with a round-trip oracle"),
 "C13": dict(cat="exploration", ref="DESIGN.md §4 C13",
   text="The chosen QR version is compared with the minimum computed from the standard's capacity formulae for every mode x level at every per-version boundary (quick) and every length 1..cap(40)+1 (thorough), forced versions accepted/refused exactly; Data Matrix lookup is compared with the first admissible row of the reference table for every codeword count x shape x (min,max) pair, and at writer level with digit strings of known codeword count. The same content is encoded repeatedly in one process under changing MIN/MAX_SIZE hints.",
   note="Trusted: capacity formulae in internal/qrref and the attribute table in internal/dmref, both anchored to the published figures (7089/4296/2953/1817, 1558) at the start of every run.",
   tech="exhaustive enumeration against an independently computed minimum"),
 "C02": dict(cat="exploration", ref="DESIGN.md §4 C02",
   text="Grammar-based property testing: Latin-1 texts built from runs over ten character classes (so that every encodation mode, latch, unlatch and end-of-data rule is reached), macro envelopes, shape / min / max hints and forced sizes, checked at codeword level (hundreds of thousands of cases) and through the full writer -> image -> pure-barcode reader pipeline for all 30 sizes; oracle = termination (watchdog with isolated re-run), exact round trip, refusal of non-Latin-1 text, acceptance whenever the plain ASCII encodation + 16 codewords fits. Also: every run length 1..1555 of extended bytes (alone and embedded), every tail of <= 5 characters after each mode prefix, and histories through one writer and one reader instance. Macro envelopes and their near-misses are enumerated (13 heads x 9 tails x 13 bodies); run lengths around every symbol capacity are part of the quick tier; a text of extended characters only must be accepted whenever its single Base-256 run fits.",
   note="Trusted: the ASCII-length sufficient condition for 'fits'; x/text is not involved. The check cannot show optimality of the encodation, only correctness of what is produced.",
   tech="grammar-based round-trip property testing (rapid) with a termination watchdog"),
 "C03": dict(cat="exploration", ref="DESIGN.md §4 C03",
   text="Round-trip property testing per symbology with content generators that follow the property's quantifier (lengths, alphabets, code sets, guard pairs), geometry (width up to 8x, height 0..80, margin >= default), the multi-format UPC/EAN reader, a rejection side for malformed contents, and the complete UPC-E (2*10^6) and EAN-8 (10^7) number spaces in the thorough tier. Also: all ASCII pairs / all ITF lengths, every order of POSSIBLE_FORMATS for the multi reader, and histories through one writer and one reader per symbology with failed reads in between. Further enumerations: Code 128 forced code sets with every character value (refused or read back), every content length 1..84 of the variable-length symbologies, UPC-A numbers built to look like an EAN-8 under all 24 format orders of the multi-format reader.",
   note="Trusted: the independent mod-10 / UPC-E expansion formulae in internal/onedref for canonical forms. One known finding (UPC-E default margin vs. the reader's trailing quiet zone) is listed in known_findings.json and steered around by construction (counted).",
   tech="round-trip property-based testing (rapid) + exhaustive number-space enumeration"),
 "C10": dict(cat="fault_enumeration", ref="DESIGN.md §4 C10",
   text="Fault enumeration over check characters: every single-digit substitution (9*len) of UPC/EAN numbers is carried by an independently constructed symbol and must be rejected unless the independent predicate says it verifies; every replacement of one Code 128 / Code 93 symbol character by every other data value must be rejected; writer check characters are compared with the mod-103 / mod-47 formulae through pattern tables typed from the standards; wrong supplied check digits must be refused; UPC-E expansion vs. zero suppression over the whole number space; all EAN-2 add-ons and EAN-5 add-ons x all 32 parity patterns. Add-on reads are also run as histories (refused add-on, then a valid one) on a single reader instance. Check-digit verdicts are also taken as histories on one reader instance (differential against a fresh reader).",
   note="Trusted: internal/onedref (UPC/EAN codes, parity tables, Code 128 / Code 93 tables with structural self-checks, checksum formulae). One known finding (upside-down UPC-E misread) is listed in known_findings.json with a matcher specific to that root cause.",
   tech="fault enumeration over substitutions with independently constructed symbols and an independent validity predicate"),
 "C09": dict(cat="exploration", ref="DESIGN.md §4 C09",
   text="Generated poses (integer scale, four rotations, QR mirroring, independent padding per side, nil / TRY_HARDER hints) of writer output for QR, Data Matrix and the nine 1-D symbologies are read through the locating path; the result must be the encoded content or a ReaderException, never other content. The positive clauses (1-D upside down with ORIENTATION 180, sideways with TRY_HARDER, transposed QR matrix flagged mirrored) are asserted on the domains the property states. Success rates per symbology and rotation are reported so that the negative guarantee is not satisfied vacuously. Every successful read's ORIENTATION metadata must be a quarter turn within the documented [0,360) that matches the rotation applied. Transposed symbols are produced for all 32 (level, mask) formats; at image level the result points of the mirrored read must be the reflections of those of the upright read.",
   note="Statistical by nature: RS/BCH/check digits make a misread rare by design; the search is over poses and payloads, not over all images. UPC-E upside-down misreads would be matched against the known-finding class shared with C10.",
   tech="metamorphic property-based testing over image poses (rapid)"),
 "C14": dict(cat="exploration", ref="DESIGN.md §4 C14",
   text="Pixel-exact differential against the rendering formula stated in the property, built from the encoder-level module matrix, for all 11 writers: every requested width in 0..natural+3 (and heights) x a set of margins enumerated, larger requests up to 8x and margins 0..20 rapid-generated; BitMatrix's image.Image view checked on every output.",
   note="Trusted: the 30-line formula implementation in checks/c14 (the property's own formula).",
   tech="exhaustive small-range enumeration + property-based testing against a formula oracle"),
 "C15": dict(cat="exploration", ref="DESIGN.md §4 C15",
   text="Every registered charset under every name and alias: single-byte repertoires exhaustively, multi-byte sets sampled, through the QR writer/reader with the ECI designator checked against the AIM assignment list typed in the check and the byte segment against x/text; registry laws over all values and names; every ECI number up to 1100 in all three designator forms (sampled to 999999) in hand-built streams; decode-side hints; unhinted UTF-8 adversarial for the guesser. Each designated symbol is re-read with a conflicting decode-side CHARACTER_SET hint (the designator must win). Every double-byte Shift_JIS character outside the Kanji-mode ranges is written as all-double-byte text.",
   note="Trusted: x/text encoders/decoders as the oracle for what is representable (not for gozxing's behaviour) and the AIM number table typed in checks/c15.",
   tech="round-trip property testing + exhaustive registry / ECI-number enumeration against an independent table"),
 "C19": dict(cat="exploration", ref="DESIGN.md §4 C19",
   text="The transform is compared with an independent projective solve in 256-bit floats over rapid-generated convex quadrilateral pairs; sampled grids are compared cell by cell with the image pixel under the independently transformed cell centre; the nudge rules are enumerated on all four sides, both row ends and 11 distances, directly and through sampling with translated / sheared grids; all-black images detect any read outside the image. Grid-side reference points are also re-listed from other corners, reversed, or general convex quadrilaterals; twisted image-side quadrilaterals (as misdetected symbols give) must yield NotFound or image pixels only. Rows with several consecutive points inside an edge strip. The transform the QR detector builds is checked at its call site: finder centres at grid (3.5,3.5),(dim-3.5,3.5),(3.5,dim-3.5) and the alignment centre (dim-6.5,dim-6.5), at sub-pixel positions, must map onto the points found (all 40 versions, with and without an alignment pattern).",
   note="Trusted: the 8x8 Gaussian elimination in big.Float in checks/c19. Cells within 1e-6 of a pixel boundary are skipped; degenerate quadrilaterals are not generated.",
   tech="property-based testing against an extended-precision reference + enumerated edge-rule cases"),
 "C17": dict(cat="exploration", ref="DESIGN.md §4 C17",
   text="Model-based testing of luminance views: eight source kinds x generated sizes / pixel contents x sequences of up to six crop / invert / rotate operations (valid and invalid) against a naive 2-D array model, every row and the full matrix compared after each step; bilevel images (incl. rendered symbols of all writers, sizes around the 40-pixel switch) through both binarisers and the BinaryBitmap API against the exact black-pixel model. Caller-supplied luminance / bit rows arrive dirty. Structured bilevel pictures (solid blocks, all black / white, black frames >= 40 px); every crop rectangle around small planar-YUV data; crops with exactly one negative coordinate.",
   note="Trusted: the naive model in checks/c17. Colour-to-luminance conversion is only checked at opaque black / white / gray; single-colour rows may be rejected or binarised exactly.",
   tech="model-based property testing (rapid) against a naive array model"),
 "C11": dict(cat="exploration", ref="DESIGN.md §4 C11",
   text="Symbols are produced by an independent Aztec encoder (internal/azref) from rapid-generated token walks over the five code tables, shifts, latches and binary shifts; every one of the 36 sizes is forced each run; decoding is checked at three observation points (high-level bits, matrix with detector result, rendered image in four rotations at scales 2..5, quiet zones 0..10 modules, square / wide / tall pictures incl. ones where the bull's eye lies farther along the long side than the short side is long) with damage up to the correction capacity.",
   note="Trusted: internal/azref (tables, stuffing, RS over own GF arithmetic, mode message, layout), validated by the unchanged tree decoding all sizes. One known finding (centre estimate of sparse symbols) is listed with a matcher that recomputes the library's own first-stage centre estimate.",
   tech="property-based testing with an independent reference encoder as symbol source"),
 "C06": dict(cat="exploration", ref="DESIGN.md §4 C06",
   text="Structured generators drive every image-level reader configuration, the three matrix decoders, the three bit-stream parsers and all row decoders with random, structured and mutated-valid inputs and rapid hint maps, under recover() and a watchdog; the oracle is totality: returns, result xor error, documented error kinds for image readers. Native coverage-guided fuzz targets for the parsers run in the thorough tier. The QR bit-stream grammar has a well-formed mode (correct count fields, FNC1 markers, '%' over-weighted) besides the hostile one; 1-D rows are also re-assembled from a valid symbol's own characters (down to start + stop only).",
   note="Totality over generated inputs only; a deep parser state can be missed. Hint values are well-typed. Suspected hangs are re-run alone with a 120 s limit before being reported.",
   tech="robustness property testing (rapid) + native go fuzzing with a totality oracle"),
 "C12": dict(cat="exploration", ref="DESIGN.md §4 C12",
   text="Robustness property testing of all 11 writers over generated contents (empty, plausible, arbitrary bytes, non-Latin, very long, mode-oscillation shapes), all 17 format values, negative / zero / large sizes and rapid hint maps with in- and out-of-range values, under recover() and a watchdog; oracle: returns, matrix xor error, matrix never smaller than the symbol it depicts nor (QR, 1-D) than the request.",
   note="Totality over generated inputs only. The symbol's own dimensions are obtained from the same writer at 0x0 / margin 0 (QR: Encoder_encode) for the same content and non-geometry hints.",
   tech="robustness property testing (rapid) with a totality and size oracle"),
 "C18": dict(cat="exploration", ref="DESIGN.md §4 C18",
   text="Schedule exploration under the Go race detector: rapid-generated workloads of 2..64 goroutines with private reader / writer / codec instances over all symbologies, varying GOMAXPROCS, start staggering and yield points; any race report is a violation, and every concurrent result must equal the result of the same operation run alone afterwards. Per-family in-flight counters measure how many configurations really overlapped on the same package-level tables. Workloads include QR symbols with ECI designators in nine charsets (stateful x/text decoders). Further op kinds: private multi-format UPC/EAN readers built with and without format hints.",
   note="The race detector only reports races on executed paths and interleavings that occurred; rare interleavings on paths no workload drives stay unseen. Exploration is the honest level; model checking the shared state is outside this technique family.",
   tech="randomised concurrent workloads under -race with a sequential-equivalence oracle"),
}

NOT_YET = {}

def main():
    props = [json.loads(l)["id"] for l in open(os.path.join(ROOT, "properties.jsonl"))]
    checks = []
    for pid in props:
        if pid not in CHECKS: continue
        c = CHECKS[pid]
        checks.append({
            "property_id": pid,
            "quick_cmd": f"./check {pid} quick",
            "thorough_cmd": f"./check {pid} thorough",
            "evidence_file": f"/verif/evidence/{pid}.json",
            "replay_cmd_template": f"./check {pid} --replay {{path}}",
            "engine": "verifctl",
            "level_claimed": {"category": c["cat"], "text": c["text"], "design_ref": c["ref"]},
            "level_note": c["note"],
            "technique": c["tech"],
        })
    na = [{"property_id": p, "reason": NOT_YET.get(p, "check not built yet in this revision of /verif (planned, see DESIGN.md §4); not claimed until it runs clean")} for p in props if p not in CHECKS]
    try:
        hooks = subprocess.check_output(["git", "-C", "/repo", "log", "--format=%H %s"], text=True).splitlines()
        hook_commits = [l.split()[0] for l in hooks if " hook:" in l or l.split(" ",1)[1].startswith("hook")]
    except Exception:
        hook_commits = []
    m = {
        "version": 1,
        "setup_cmd": "./setup.sh",
        "hooks": {
            "guard": "verif",
            "enable": "go build tag: checks are compiled with `go test -c -tags verif` (files in /repo named verif_hooks.go carry `//go:build verif`)",
            "baseline_off_cmd": "cd /repo && go build ./... && go test -vet=off -count=1 -timeout 25m ./...",
            "source_commits": hook_commits,
            "add_only": True,
        },
        "engines": [{"name": "verifctl", "path": "/verif/cmd/verifctl", "serves_properties": [c["property_id"] for c in checks],
                     "kind_free_text": "Go driver: rebuilds the per-property test binary against /repo's working tree (replace directive, -tags verif), runs it in shard processes with VERIF_SEED-derived rapid seeds, merges evidence, prints VIOLATION / KNOWN-FINDING lines; checks are pgregory.net/rapid properties, exhaustive enumerations and (thorough) native go fuzz targets with explicit oracles"}],
        "checks": checks,
        "not_applicable": na,
        "notes": "Technique family: property-based testing and fuzzing (pgregory.net/rapid v1.3.0 + native go fuzzing). Exit codes of ./check: 0 held, 1 violation (VIOLATION line + replay file), 2 inconclusive (build failure / timeout / worker death; never a VIOLATION line). Known findings: /verif/known_findings.json.",
    }
    json.dump(m, open(os.path.join(ROOT, "MANIFEST.json"), "w"), indent=1)
    print("checks:", len(checks), "not_applicable:", len(na))

if __name__ == "__main__":
    main()
