#!/usr/bin/env python3
"""selftest/harvest_regressions.py: for every 'fixed' entry in known_findings.json, take the
repair back out of /repo's working tree (reverse-apply the fix commit), run that property's
quick check, keep one shrunk failing input per sub-check as regressions/<id>/<commit>-<sub>.json,
and restore /repo. Run only while nothing else uses /repo."""
import json, subprocess, os, glob, shutil, sys, re
os.chdir('/verif')
env = dict(os.environ, GOFLAGS='-mod=mod', GOPROXY='off', GOSUMDB='off', GOTOOLCHAIN='local', VERIF_SEED='1')
d = json.load(open('known_findings.json'))
only = set(sys.argv[1:])
for e in d:
    if e['status'] != 'fixed' or not e.get('commit'): continue
    pid, commit = e['property'], e['commit']
    if only and commit not in only and pid not in only: continue
    assert subprocess.run(['git','-C','/repo','status','--porcelain'],capture_output=True,text=True).stdout.strip()=='' , 'repo dirty'
    patch = subprocess.run(['git','-C','/repo','show','--format=',commit],capture_output=True,text=True).stdout
    r = subprocess.run(['git','-C','/repo','apply','-R','--3way','-'],input=patch,capture_output=True,text=True)
    if r.returncode != 0:
        subprocess.run(['git','-C','/repo','checkout','--','.']); subprocess.run(['git','-C','/repo','reset','-q','--hard'])
        print(pid, commit, 'reverse apply failed:', r.stderr.strip()[:200]); continue
    for f in glob.glob(f'replays/{pid}/*'): os.remove(f)
    out = subprocess.run(['./check', pid, 'quick'], env=env, capture_output=True, text=True).stdout
    subprocess.run(['git','-C','/repo','reset','-q','--hard'])
    reps = sorted(glob.glob(f'replays/{pid}/*.json'))
    kept = {}
    for f in reps:
        rf = json.load(open(f))
        sub = re.sub(r'[^A-Za-z0-9_]+','_', rf.get('sub','x'))
        if sub.startswith('saved_regression'): continue
        if sub in kept: continue
        kept[sub] = f
    os.makedirs(f'regressions/{pid}', exist_ok=True)
    for sub, f in list(kept.items())[:3]:
        rf = json.load(open(f)); rf['fixed_by'] = commit; rf['what'] = e['what'][:300]
        json.dump(rf, open(f'regressions/{pid}/{commit}-{sub}.json','w'), indent=1, ensure_ascii=False)
    for f in reps: os.remove(f)
    print(pid, commit, 'kept', list(kept)[:3], 'of', len(reps))
