#!/bin/bash
# selftest/verify_seed.sh <worktree> <property id> <variant n> [name in /verif/seeded]
# Confirms a sub-agent's seeded change independently: full suite passes with the patch,
# demo fails with it and passes without it. Copies the artefacts to /verif/seeded/<id>-v<n>/.
export GOFLAGS=-mod=mod GOPROXY=off GOSUMDB=off GOTOOLCHAIN=local
wt="$1"; id="$2"; n="$3"; name="${4:-$id-v$n}"
src="$wt/seed_out/variant_$n"
out="/verif/seeded/$name"
cd "$wt" || exit 3
git checkout -q -- . ; rm -rf seeddemo
[ -d seed_out ] && mv seed_out _seed_out
src="$wt/_seed_out/variant_$n"
res() { echo "$name: $*"; }
git apply "$src/patch.diff" || { res "PATCH DOES NOT APPLY"; mv _seed_out seed_out; exit 1; }
suite=pass
go build ./... >/dev/null 2>&1 || suite=buildfail
if [ $suite = pass ]; then go test -count=1 ./... > /tmp/suite.$id.$n.log 2>&1 || suite=fail; fi
mkdir -p seeddemo && cp "$src/demo_test.go" seeddemo/demo_test.go
with=pass; go test -count=1 ./seeddemo/ > /tmp/demo_with.$id.$n.log 2>&1 || with=fail
git checkout -q -- .
without=pass; go test -count=1 ./seeddemo/ > /tmp/demo_without.$id.$n.log 2>&1 || without=fail
rm -rf seeddemo
mv _seed_out seed_out
res "suite_with_patch=$suite demo_with_patch=$with demo_without_patch=$without"
if [ $suite = pass ] && [ $with = fail ] && [ $without = pass ]; then
  mkdir -p "$out"
  cp "$wt/seed_out/variant_$n/patch.diff" "$out/patch.diff"
  cp "$wt/seed_out/variant_$n/demo_test.go" "$out/demo_test.go"
  cp "$wt/seed_out/variant_$n/meta.json" "$out/agent_meta.json"
  res "CONFIRMED -> $out"
else
  res "NOT CONFIRMED"
fi
