#!/bin/bash
# selftest/mut.sh <patch.diff> <Cxx> [quick|thorough]
# Applies a patch to /repo, runs the check, restores /repo. Prints the check's exit code.
# Expected: exit 1 (VIOLATION) for a property-breaking patch. Replays written during the run are removed.
set -u
patch="$(readlink -f "$1")"; id="$2"; tier="${3:-quick}"
cd /repo || exit 3
if [ -n "$(git status --porcelain)" ]; then echo "selftest: /repo not clean"; exit 3; fi
git apply "$patch" || { echo "selftest: patch does not apply"; exit 3; }
cd /verif
before=$(ls replays/$id 2>/dev/null | sort)
./check "$id" "$tier" > /tmp/selftest.$$.log 2>&1
rc=$?
grep -E "^(VIOLATION|KNOWN-FINDING|INCONCLUSIVE|  sub-check|C[0-9]+ )" /tmp/selftest.$$.log | cut -c1-400 | head -12
rm -f /tmp/selftest.$$.log
# remove replays created by the mutant run
for f in $(ls replays/$id 2>/dev/null); do
  echo "$before" | grep -qx "$f" || rm -f "replays/$id/$f"
done
git -C /repo checkout -- . 
git -C /repo clean -fdq
echo "selftest: $id $tier on $(basename $patch): exit=$rc"
exit 0
