#!/usr/bin/env python3
"""selftest/mutation_sweep.py: broad sensitivity measurement by mechanical mutation.

For every source file a property is anchored in, small one-token changes are generated
(relational / arithmetic / logical operator swaps, integer literals +-1, true<->false, shift
direction). Each is applied in a scratch worktree of /repo (never in /repo itself); mutants that do
not build or that the repository's own test suite already rejects are discarded; for the survivors
the quick tier of every property anchored in that file is run from a scratch copy of /verif whose
go.mod points at the scratch worktree. The report lists which survivors no check detects - these
are either equivalent (no behaviour a property speaks about changes) or gaps to close.

usage: mutation_sweep.py [--n 400] [--seed 1] [--workers 5] [--files f1,f2] [--props C01,C02] [--out file]
Everything lives under /tmp/msweep-* and is removed at the end.
"""
import json, os, re, random, subprocess, sys, shutil, time, hashlib
from concurrent.futures import ThreadPoolExecutor

ENV = dict(os.environ, GOFLAGS='-mod=mod', GOPROXY='off', GOSUMDB='off', GOTOOLCHAIN='local', VERIF_SEED='1')
args = sys.argv[1:]
def opt(name, default):
    if name in args:
        return args[args.index(name) + 1]
    return default
N = int(opt('--n', '400')); SEED = int(opt('--seed', '1')); WORKERS = int(opt('--workers', '5'))
ONLY_FILES = [f for f in opt('--files', '').split(',') if f]
ONLY_PROPS = [p for p in opt('--props', '').split(',') if p]
OUT = opt('--out', '/verif/selftest/mutation_report.json')
ONLY_OPS = [o for o in opt('--ops', '').split(',') if o]

props = [json.loads(l) for l in open('/verif/properties.jsonl')]
file_props = {}
for p in props:
    if ONLY_PROPS and p['id'] not in ONLY_PROPS:
        continue
    for f in p['anchors']['files']:
        if os.path.exists('/repo/' + f) and f.endswith('.go') and not f.endswith('_test.go'):
            file_props.setdefault(f, []).append(p['id'])
if ONLY_FILES:
    file_props = {f: v for f, v in file_props.items() if f in ONLY_FILES}

OPS = [
    ('ROR', [(' < ', ' <= '), (' <= ', ' < '), (' > ', ' >= '), (' >= ', ' > '), (' == ', ' != '), (' != ', ' == ')]),
    ('AOR', [(' + ', ' - '), (' - ', ' + '), (' * ', ' / '), (' % ', ' / ')]),
    ('LCR', [(' && ', ' || '), (' || ', ' && ')]),
    ('SHIFT', [(' << ', ' >> '), (' >> ', ' << '), ('<<', '>>'), ('>>', '<<')]),
    ('BOOL', [('return true', 'return false'), ('return false', 'return true'), ('= true', '= false'), ('= false', '= true')]),
    ('INCDEC', [('++', '--'), ('--', '++'), ('+= ', '-= '), ('-= ', '+= ')]),
]
NUM = re.compile(r'(?<![\w."\'])(0x[0-9a-fA-F]+|\d+)(?![\w."\'])')

def candidates(path):
    out = []
    in_block_comment = False
    lines = open('/repo/' + path).read().split('\n')
    in_import = False
    for ln, line in enumerate(lines):
        s = line.strip()
        if in_block_comment:
            if '*/' in s:
                in_block_comment = False
            continue
        if s.startswith('/*'):
            if '*/' not in s:
                in_block_comment = True
            continue
        if s.startswith('//') or s.startswith('package ') or s == '' or s.startswith('import'):
            if s.startswith('import ('):
                in_import = True
            continue
        if in_import:
            if s == ')':
                in_import = False
            continue
        code = line.split('//')[0] if '"' not in line else line
        for name, pairs in OPS:
            for a, b in pairs:
                start = 0
                while True:
                    i = code.find(a, start)
                    if i < 0:
                        break
                    start = i + len(a)
                    if name == 'AOR' and '"' in code:
                        continue
                    if a in ('<<', '>>') and (code[i-1:i] == ' '):
                        continue  # handled by the spaced variant
                    if a in ('++', '--') and code[i:i+3] in ('+++', '---'):
                        continue
                    out.append((name, ln, line[:i] + b + line[i+len(a):], '%s -> %s' % (a.strip(), b.strip())))
        for m in NUM.finditer(code):
            tok = m.group(1)
            if '"' in code[:m.start()] and code[:m.start()].count('"') % 2 == 1:
                continue
            v = int(tok, 16) if tok.startswith('0x') else int(tok)
            for d in (1, -1):
                nv = v + d
                if nv < 0:
                    continue
                new = ('0x%x' % nv) if tok.startswith('0x') else str(nv)
                out.append(('CONST', ln, line[:m.start()] + new + line[m.end():], '%s -> %s' % (tok, new)))
    return out

rnd = random.Random(SEED)
allc = []
for f in sorted(file_props):
    cs = candidates(f)
    if ONLY_OPS:
        cs = [c for c in cs if c[0] in ONLY_OPS]
    # balance operator classes within a file
    by = {}
    for c in cs:
        by.setdefault(c[0], []).append(c)
    for k in by:
        rnd.shuffle(by[k])
    allc.append((f, by))
# round-robin over files and operator classes until N
picked = []
while len(picked) < N:
    progressed = False
    for f, by in allc:
        for k in list(by):
            # constants are plentiful: take them every other round only
            if by[k]:
                c = by[k].pop()
                picked.append((f,) + c)
                progressed = True
                if len(picked) >= N:
                    break
        if len(picked) >= N:
            break
    if not progressed:
        break
rnd.shuffle(picked)
print('files', len(file_props), 'mutants', len(picked), flush=True)

def sh(cmd, cwd=None, timeout=1800, env=ENV):
    try:
        r = subprocess.run(cmd, cwd=cwd, env=env, capture_output=True, text=True, errors='replace', timeout=timeout)
        return r.returncode, r.stdout + r.stderr
    except subprocess.TimeoutExpired:
        return 124, 'timeout'

def setup_worker(k):
    wt, vd = '/tmp/msweep-wt-%d' % k, '/tmp/msweep-v-%d' % k
    sh(['git', '-C', '/repo', 'worktree', 'remove', '--force', wt])
    shutil.rmtree(wt, ignore_errors=True); shutil.rmtree(vd, ignore_errors=True)
    rc, out = sh(['git', '-C', '/repo', 'worktree', 'add', '-q', '--detach', wt, 'HEAD'])
    assert rc == 0, out
    os.makedirs(vd)
    for name in ['checks', 'internal', 'cmd', 'go.mod', 'go.sum', 'known_findings.json', 'regressions', 'check', 'properties.jsonl']:
        src = '/verif/' + name
        if os.path.isdir(src):
            shutil.copytree(src, vd + '/' + name)
        else:
            shutil.copy(src, vd + '/' + name)
    gm = open(vd + '/go.mod').read().replace('=> /repo', '=> ' + wt)
    open(vd + '/go.mod', 'w').write(gm)
    return wt, vd

def run_mutant(k, wt, vd, m):
    f, op, ln, newline, what = m
    path = wt + '/' + f
    orig = open(path).read()
    lines = orig.split('\n')
    before = lines[ln]
    lines[ln] = newline
    open(path, 'w').write('\n'.join(lines))
    rec = {'file': f, 'line': ln + 1, 'op': op, 'change': what, 'before': before.strip()[:160], 'after': newline.strip()[:160], 'props': file_props[f]}
    try:
        rc, out = sh(['go', 'build', './...'], cwd=wt, timeout=600)
        if rc != 0:
            rec['status'] = 'does_not_build'
            return rec
        rc, out = sh(['go', 'test', '-count=1', '-vet=off', '-timeout', '10m', './...'], cwd=wt, timeout=900)
        if rc != 0:
            rec['status'] = 'killed_by_existing_tests'
            return rec
        rec['status'] = 'survives_existing_tests'
        rec['detected_by'] = {}
        for pid in file_props[f]:
            env = dict(ENV, VERIF_DIR=vd)
            rc, out = sh([vd + '/check', pid, 'quick'], cwd=vd, timeout=1500, env=env)
            subs = sorted(set(re.findall(r'sub-check ([A-Za-z0-9_/.\-]+):', out)))
            rec['detected_by'][pid] = {'exit': rc, 'subs': subs[:6]}
        rec['detected'] = any(v['exit'] == 1 for v in rec['detected_by'].values())
        rec['inconclusive'] = [p for p, v in rec['detected_by'].items() if v['exit'] not in (0, 1)]
        return rec
    finally:
        open(path, 'w').write(orig)

results = []
def worker(k, items):
    wt, vd = setup_worker(k)
    try:
        for m in items:
            t0 = time.time()
            try:
                rec = run_mutant(k, wt, vd, m)
            except Exception as e:
                rec = {'file': m[0], 'line': m[2] + 1, 'op': m[1], 'change': m[4], 'status': 'harness_error', 'error': str(e)[:300]}
            rec['secs'] = round(time.time() - t0, 1)
            results.append(rec)
            if rec.get('status') == 'survives_existing_tests':
                print(('DETECTED ' if rec.get('detected') else 'UNDETECTED ') + '%s:%d %s [%s] %s' % (rec['file'], rec['line'], rec['change'], rec['op'], {p: v['exit'] for p, v in rec['detected_by'].items()}), flush=True)
    finally:
        sh(['git', '-C', '/repo', 'worktree', 'remove', '--force', wt])
        shutil.rmtree(wt, ignore_errors=True); shutil.rmtree(vd, ignore_errors=True)

chunks = [picked[i::WORKERS] for i in range(WORKERS)]
with ThreadPoolExecutor(WORKERS) as ex:
    list(ex.map(lambda kv: worker(kv[0], kv[1]), enumerate(chunks)))
sh(['git', '-C', '/repo', 'worktree', 'prune'])
summary = {
    'seed': SEED, 'requested': N, 'generated': len(picked),
    'does_not_build': sum(1 for r in results if r.get('status') == 'does_not_build'),
    'killed_by_existing_tests': sum(1 for r in results if r.get('status') == 'killed_by_existing_tests'),
    'survive_existing_tests': sum(1 for r in results if r.get('status') == 'survives_existing_tests'),
    'detected_by_checks': sum(1 for r in results if r.get('detected')),
    'undetected': sum(1 for r in results if r.get('status') == 'survives_existing_tests' and not r.get('detected')),
}
json.dump({'summary': summary, 'mutants': sorted(results, key=lambda r: (r['file'], r['line']))}, open(OUT, 'w'), indent=1)
print(json.dumps(summary))
