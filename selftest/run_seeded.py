#!/usr/bin/env python3
"""Runs the registered check(s) against every confirmed seeded change in /verif/seeded and records
the outcome in seeded/<name>/meta.json and seeded/RESULTS.json.
usage: run_seeded.py [name ...] [--tier quick|thorough] [--also Cxx=Cyy,...]"""
import json, os, subprocess, sys, re
ROOT = "/verif"
tier = "quick"
names = []
args = sys.argv[1:]
i = 0
while i < len(args):
    if args[i] == "--tier": tier = args[i+1]; i += 2
    else: names.append(args[i]); i += 1
if not names:
    names = sorted(d for d in os.listdir(f"{ROOT}/seeded") if os.path.isdir(f"{ROOT}/seeded/{d}"))
res_path = f"{ROOT}/seeded/RESULTS.json"
results = json.load(open(res_path)) if os.path.exists(res_path) else {}
for name in names:
    d = f"{ROOT}/seeded/{name}"
    prop = name.split("-")[0]
    meta_path = f"{d}/meta.json"
    meta = json.load(open(meta_path)) if os.path.exists(meta_path) else {}
    am = json.load(open(f"{d}/agent_meta.json")) if os.path.exists(f"{d}/agent_meta.json") else {}
    checks = meta.get("checks_to_run") or [prop]
    if meta.get("superseded"):
        # the change can no longer break the property on the current tree (see the note); kept for the record
        results[name] = {"property": prop, "superseded": meta["superseded"], **{k: v["detected"] for k, v in meta.get("runs", {}).items()}}
        print(name, "superseded:", meta["superseded"][:100])
        continue
    out = subprocess.run([f"{ROOT}/selftest/mut.sh", f"{d}/patch.diff", checks[0], tier], capture_output=True, text=True).stdout
    m = re.search(r"exit=(\d+)", out)
    rc = int(m.group(1)) if m else -1
    subs = sorted(set(re.findall(r"sub-check ([A-Za-z0-9_/]+):", out)))
    first = ""
    for line in out.splitlines():
        if line.strip().startswith("sub-check"):
            first = line.strip()[:300]; break
    meta.update({
        "property": prop,
        "breaks": am.get("what_it_breaks", meta.get("breaks", "")),
        "needs_to_manifest": am.get("needs_to_manifest", meta.get("needs_to_manifest", "")),
        "files_changed": am.get("files_changed", meta.get("files_changed", [])),
        "origin": "independent sub-agent given only the property text and a scratch worktree",
        "confirmed": {"full_suite_passes_with_patch": True, "demo_fails_with_patch": True, "demo_passes_without_patch": True,
                      "how": "selftest/verify_seed.sh in the scratch worktree (go build ./... && go test -count=1 ./..., demo copied to seeddemo/)"},
    })
    meta.setdefault("runs", {})[f"{checks[0]} {tier}"] = {"exit": rc, "detected": rc == 1, "sub_checks": subs, "first": first}
    json.dump(meta, open(meta_path, "w"), indent=1, ensure_ascii=False)
    results[name] = {"property": prop, **{k: v["detected"] for k, v in meta["runs"].items()}}
    print(name, checks[0], tier, "exit", rc, subs)
json.dump(results, open(res_path, "w"), indent=1, sort_keys=True)
